"""A small multi-file Fortran 'world' with a reference name resolver (Fortran scoping / USE association rules),
shared by C05 (definition), C06 (references / rename) and C12 (completion).

World = three files:
  m1.f90  module m1: entities a, b (variables), c (module procedure), type t; default accessibility and per-entity
          accessibility (attribute or PUBLIC/PRIVATE statement) are parameters
  m2.f90  module m2: USE m1 (plain | ONLY: a | ONLY: z => a | ONLY: b), own entity d, default accessibility,
          optional explicit 'public :: <imported name>'
  main.f90 program main: USE m1|m2 (plain | ONLY list | rename), optional local declaration shadowing a,
          an internal procedure `inner` with its own optional declaration; use sites of the names a, b, d, y, z, c
The resolver below is written from the Fortran rules (local, USE association with ONLY/rename and accessibility -
also through re-exporting modules -, host association), not from fortls.
"""
from __future__ import annotations

R = "/vws"
PUB, PRIV = 1, -1


class W:
    def __init__(self, m1_private=False, vis_a=0, vis_b=0, vis_c=0, u21=0, m2_private=False, m2_pub_stmt=False,
                 target="m2", up=0, local_a=0, second_use=0, vis_ex=0):
        self.m1_private = m1_private  # bare PRIVATE statement in m1
        self.vis_a, self.vis_b, self.vis_c = vis_a, vis_b, vis_c  # 0 default, 1 attr public, -1 attr private, 2 stmt public, -2 stmt private
        self.u21 = u21              # m2: 0 'use m1', 1 only: a, 2 only: z => a, 3 only: b
        self.m2_private = m2_private
        self.m2_pub_stmt = m2_pub_stmt  # m2: 'public :: <first imported name>'
        self.target, self.up = target, up   # main: use target; 0 plain, 1 only: a, 2 only: y => a, 3 only: b, 4 only: d, 5 only: z
        self.local_a = local_a      # 0 none, 1 declared in main, 2 declared in inner, 3 both
        self.second_use = second_use  # 0 none; 1 main additionally 'use m1, only: b'
        self.vis_ex = vis_ex        # accessibility statement for the interface-block procedure ex: 0 none, 2 public, -2 private

    # ------------------------------------------------------------------ rendering
    def files(self):
        self.decl = {}   # entity id -> (path, 0-based line, column of the name)
        self.sites = []  # (path, line, col, name, scope) use sites
        f1 = ["module m1"]
        if self.m1_private:
            f1.append("  private")

        def attr(v):
            return ", public" if v == 1 else ", private" if v == -1 else ""
        f1.append(f"  integer{attr(self.vis_a)} :: a")
        self.decl["m1:a"] = (f"{R}/m1.f90", len(f1) - 1, f1[-1].index(":: a") + 3)
        f1.append(f"  real{attr(self.vis_b)} :: b")
        self.decl["m1:b"] = (f"{R}/m1.f90", len(f1) - 1, f1[-1].index(":: b") + 3)
        for n, v in (("a", self.vis_a), ("b", self.vis_b), ("c", self.vis_c), ("ex", self.vis_ex)):
            if v == 2:
                f1.append(f"  public :: {n}")
            elif v == -2:
                f1.append(f"  private :: {n}")
        f1 += ["  interface", "    subroutine ex()"]
        self.decl["m1:ex"] = (f"{R}/m1.f90", len(f1) - 1, f1[-1].index("ex()"))
        f1 += ["    end subroutine ex", "  end interface"]
        f1.append("contains")
        f1.append("  subroutine c()")
        self.decl["m1:c"] = (f"{R}/m1.f90", len(f1) - 1, f1[-1].index("c()"))
        f1.append("    a = 0")
        self.sites.append((f"{R}/m1.f90", len(f1) - 1, 4, "a", "m1:c"))
        f1 += ["  end subroutine c", "end module m1"]

        f2 = ["module m2", "  use m1" + ["", ", only: a", ", only: z => a", ", only: b"][self.u21]]
        if self.m2_private:
            f2.append("  private")
        f2.append("  integer, public :: d" if self.m2_private else "  integer :: d")
        self.decl["m2:d"] = (f"{R}/m2.f90", len(f2) - 1, f2[-1].index(":: d") + 3)
        if self.m2_pub_stmt:
            f2.append("  public :: " + self._m2_first_import())
        f2.append("end module m2")

        fm = ["program main", f"  use {self.target}" + ["", ", only: a", ", only: y => a", ", only: b", ", only: d", ", only: z"][self.up]]
        if self.second_use:
            fm.append("  use m1, only: b")
        if self.local_a in (1, 3):
            fm.append("  integer :: a")
            self.decl["main:a"] = (f"{R}/main.f90", len(fm) - 1, fm[-1].index(":: a") + 3)
        for n in ("a", "b", "d", "y", "z"):
            fm.append(f"  {n} = {n} + 1")
            self.sites.append((f"{R}/main.f90", len(fm) - 1, 2, n, "main"))
            self.sites.append((f"{R}/main.f90", len(fm) - 1, 6, n, "main"))
        fm.append("  call c()")
        self.sites.append((f"{R}/main.f90", len(fm) - 1, 7, "c", "main"))
        fm.append("  call ex()")
        self.sites.append((f"{R}/main.f90", len(fm) - 1, 7, "ex", "main"))
        fm += ["contains", "  subroutine inner()"]
        if self.local_a in (2, 3):
            fm.append("    real :: a")
            self.decl["inner:a"] = (f"{R}/main.f90", len(fm) - 1, fm[-1].index(":: a") + 3)
        for n in ("a", "b", "y"):
            fm.append(f"    {n}=({n})")
            self.sites.append((f"{R}/main.f90", len(fm) - 1, 4, n, "inner"))
            self.sites.append((f"{R}/main.f90", len(fm) - 1, 7, n, "inner"))
        fm += ["  end subroutine inner", "end program main"]
        return {f"{R}/m1.f90": "\n".join(f1) + "\n", f"{R}/m2.f90": "\n".join(f2) + "\n", f"{R}/main.f90": "\n".join(fm) + "\n"}

    def _m2_first_import(self):
        return {0: "a", 1: "a", 2: "z", 3: "b"}[self.u21]

    # ------------------------------------------------------------------ reference resolver
    def _public(self, vis, default_private):
        if vis in (1, 2):
            return True
        if vis in (-1, -2):
            return False
        return not default_private

    def exports_m1(self):
        out = {}
        for n, v in (("a", self.vis_a), ("b", self.vis_b), ("c", self.vis_c), ("ex", self.vis_ex)):
            if self._public(v, self.m1_private):
                out[n] = f"m1:{n}"
        return out

    @staticmethod
    def _apply_only(exports, mode_only):
        """mode_only: None (everything) or list of (local, remote)"""
        if mode_only is None:
            return dict(exports)
        return {loc: exports[rem] for loc, rem in mode_only if rem in exports}

    def names_m2(self):
        only = [None, [("a", "a")], [("z", "a")], [("b", "b")]][self.u21]
        imported = self._apply_only(self.exports_m1(), only)
        names = dict(imported)
        names["d"] = "m2:d"
        return names, set(imported)

    def exports_m2(self):
        names, imported = self.names_m2()
        out = {}
        for n, e in names.items():
            if n == "d":
                out[n] = e  # declared public explicitly when m2 is private
                continue
            explicit_pub = self.m2_pub_stmt and n == self._m2_first_import()
            if explicit_pub or not self.m2_private:
                out[n] = e
        return out

    def names_main(self):
        exp = self.exports_m1() if self.target == "m1" else self.exports_m2()
        only = [None, [("a", "a")], [("y", "a")], [("b", "b")], [("d", "d")], [("z", "z")]][self.up]
        names = self._apply_only(exp, only)
        if self.second_use:
            for k, v in self._apply_only(self.exports_m1(), [("b", "b")]).items():
                if k in names and names[k] != v:
                    names[k] = "AMBIGUOUS"
                else:
                    names[k] = v
        return names

    def resolve(self, scope: str, name: str):
        """-> entity id, None (no accessible declaration), or 'AMBIGUOUS' (program not standard conforming)"""
        if scope == "m1:c":
            return {"a": "m1:a", "b": "m1:b", "c": "m1:c", "ex": "m1:ex"}.get(name)
        if scope == "inner":
            if name == "a" and self.local_a in (2, 3):
                return "inner:a"
            return self.resolve("main", name)
        used = self.names_main()
        if name == "a" and self.local_a in (1, 3):
            return "AMBIGUOUS" if "a" in used else "main:a"
        return used.get(name)

    def conforming(self) -> bool:
        """ONLY lists may only name accessible entities; local declarations must not clash with use-associated names"""
        e1 = self.exports_m1()
        need21 = {1: "a", 2: "a", 3: "b"}.get(self.u21)
        if need21 and need21 not in e1:
            return False
        if self.m2_pub_stmt and self._m2_first_import() not in self.names_m2()[0]:
            return False
        exp = e1 if self.target == "m1" else self.exports_m2()
        needp = {1: "a", 2: "a", 3: "b", 4: "d", 5: "z"}.get(self.up)
        if needp and needp not in exp:
            return False
        if self.second_use and "b" not in e1:
            return False
        names = self.names_main()
        if "AMBIGUOUS" in names.values():
            return False
        if self.local_a in (1, 3) and "a" in names:
            return False
        return True
