"""RX - the repo's compiled regular expressions as z3 regular languages (ASCII).

A pattern object taken from the running fortls (so: from /repo's current
source) is parsed with the interpreter's own re._parser and translated into a
z3 `Re` term.  Queries (emptiness / inclusion / equality) are single z3 calls,
unbounded in string length.  See DESIGN.md 2.2 for the translation rules and
for how the translator is validated on every run (validate()).

Outside the translation: non-ASCII input, back-references, look-behind,
conditional groups.  They raise Unsupported and the obligation is inconclusive.
"""
from __future__ import annotations

import re
import time

try:
    import re._constants as C
    import re._parser as sre_parse
except ImportError:  # python < 3.11
    import sre_constants as C
    import sre_parse

import z3

S = z3.StringSort()
RS = z3.ReSort(S)
EPS = z3.Re(z3.StringVal(""))
FULL = z3.Full(RS)
EMPTY = z3.Empty(RS)
ANYC = z3.Range(chr(0), chr(127))
ASCII_STAR = z3.Star(ANYC)


class Unsupported(Exception):
    pass


def cls(chars):
    chars = sorted(set(c for c in chars if 0 <= c < 128))
    if not chars:
        return EMPTY
    rs = []
    s = e = chars[0]
    for c in chars[1:]:
        if c == e + 1:
            e = c
        else:
            rs.append((s, e))
            s = e = c
    rs.append((s, e))
    parts = [z3.Range(chr(a), chr(b)) if a != b else z3.Re(z3.StringVal(chr(a))) for a, b in rs]
    return parts[0] if len(parts) == 1 else z3.Union(*parts)


WORDC = [c for c in range(128) if chr(c).isalnum() or chr(c) == "_"]
DIGIT = list(range(48, 58))
SPACE = [c for c in range(128) if chr(c).isspace()]
W = cls(WORDC)
NW = cls([c for c in range(128) if c not in WORDC])
ENDS = {"W": z3.Concat(ASCII_STAR, W), "N": z3.Concat(ASCII_STAR, NW)}
STARTS_W = z3.Concat(W, ASCII_STAR)
NOT_STARTS_W = z3.Union(EPS, z3.Concat(NW, ASCII_STAR))


def _cat_chars(cat):
    n = str(cat)
    table = {
        "CATEGORY_WORD": WORDC, "CATEGORY_DIGIT": DIGIT, "CATEGORY_SPACE": SPACE,
    }
    neg = {"CATEGORY_NOT_WORD": WORDC, "CATEGORY_NOT_DIGIT": DIGIT, "CATEGORY_NOT_SPACE": SPACE}
    if n in table:
        return table[n]
    if n in neg:
        return [c for c in range(128) if c not in neg[n]]
    raise Unsupported(n)


def _fold(chars, ic):
    if not ic:
        return list(chars)
    out = set(chars)
    for c in chars:
        ch = chr(c)
        for v in (ch.lower(), ch.upper()):
            if len(v) == 1 and ord(v) < 128:
                out.add(ord(v))
    return list(out)


def _in_chars(items, ic):
    neg = False
    chars = []
    for op, av in items:
        n = str(op)
        if n == "NEGATE":
            neg = True
        elif n == "LITERAL":
            chars.append(av)
        elif n == "RANGE":
            chars += list(range(av[0], min(av[1], 127) + 1))
        elif n == "CATEGORY":
            chars += _cat_chars(av)
        else:
            raise Unsupported(n)
    chars = [c for c in _fold(chars, ic) if c < 128]
    if neg:
        chars = [c for c in range(128) if c not in chars]
    return chars


def _has_b(nodes):
    for op, av in nodes:
        n = str(op)
        if n == "AT" and str(av) in ("AT_BOUNDARY", "AT_NON_BOUNDARY"):
            return True
        if n == "SUBPATTERN" and _has_b(av[3]):
            return True
        if n == "BRANCH" and any(_has_b(b) for b in av[1]):
            return True
        if n in ("MAX_REPEAT", "MIN_REPEAT") and _has_b(av[2]):
            return True
        if n in ("ASSERT", "ASSERT_NOT") and _has_b(av[1]):
            return True
    return False


def _seq(nodes, ic, cont, prev):
    """language of the suffix matched by nodes followed by `cont`, given the class of the
    previous character: 'S' (start of string), 'W', 'N', or None (not tracked)."""
    if not nodes:
        return cont
    (op, av), rest = nodes[0], list(nodes[1:])
    n = str(op)

    def consume(R, may_be_empty=False):
        if prev is None and not _has_b(rest):
            return z3.Concat(R, _seq(rest, ic, cont, None))
        parts = [z3.Concat(z3.Intersect(R, ENDS[c]), _seq(rest, ic, cont, c)) for c in ("W", "N")]
        if may_be_empty:
            parts.append(_seq(rest, ic, cont, prev if prev is not None else "S"))
        return z3.Union(*parts)

    if n == "LITERAL":
        return consume(cls(_fold([av], ic)))
    if n == "NOT_LITERAL":
        return consume(cls([c for c in range(128) if c not in _fold([av], ic)]))
    if n == "ANY":
        return consume(cls([c for c in range(128) if c != 10]))
    if n == "IN":
        return consume(cls(_in_chars(av, ic)))
    if n == "SUBPATTERN":
        return _seq(list(av[3]) + rest, ic, cont, prev)
    if n == "BRANCH":
        return z3.Union(*[_seq(list(b) + rest, ic, cont, prev) for b in av[1]])
    if n in ("MAX_REPEAT", "MIN_REPEAT"):
        lo, hi, sub = av
        if _has_b(sub):
            raise Unsupported("\\b inside repeat")
        r = _seq(list(sub), ic, EPS, None)
        if hi == C.MAXREPEAT:
            rep = z3.Star(r) if lo == 0 else z3.Concat(z3.Loop(r, lo, lo), z3.Star(r))
        else:
            rep = z3.Loop(r, lo, hi)
        if prev is None and not _has_b(rest):
            return z3.Concat(rep, _seq(rest, ic, cont, None))
        nonempty = z3.Intersect(rep, z3.Concat(ANYC, ASCII_STAR))
        return consume(nonempty, may_be_empty=(lo == 0))
    if n in ("ASSERT", "ASSERT_NOT"):
        d, sub = av
        if d != 1:
            raise Unsupported("look-behind")
        look = _seq(list(sub), ic, ASCII_STAR, prev)
        t = _seq(rest, ic, cont, prev)
        return z3.Intersect(look if n == "ASSERT" else z3.Complement(look), t)
    if n == "AT":
        a = str(av)
        t = _seq(rest, ic, cont, prev)
        if a == "AT_END":
            return z3.Intersect(z3.Union(EPS, z3.Re(z3.StringVal("\n"))), t)
        if a == "AT_BEGINNING":
            if prev not in ("S", None):
                return EMPTY
            return t
        if a == "AT_BOUNDARY":
            p = prev if prev is not None else "S"
            return z3.Intersect(NOT_STARTS_W if p == "W" else STARTS_W, t)
        if a == "AT_NON_BOUNDARY":
            p = prev if prev is not None else "S"
            return z3.Intersect(STARTS_W if p == "W" else NOT_STARTS_W, t)
        raise Unsupported(a)
    raise Unsupported(n)


def _tree(p, flags=None):
    fl = p.flags if flags is None else flags
    return list(sre_parse.parse(p.pattern, fl & ~re.I))


def lang(p, mode="match", ic=None):
    """{ s in ASCII* | p.<mode>(s) is not None }"""
    if isinstance(p, str):
        p = re.compile(p)
    if p.flags & (re.M | re.S | re.X):
        raise Unsupported("flags")
    icf = bool(p.flags & re.I) if ic is None else ic
    tree = _tree(p)
    hb = _has_b(tree)
    if mode == "fullmatch":
        return _seq(tree, icf, EPS, "S" if hb else None)
    if mode == "match":
        return _seq(tree, icf, ASCII_STAR, "S" if hb else None)
    if mode == "search":
        if tree and str(tree[0][0]) == "AT" and str(tree[0][1]) == "AT_BEGINNING":
            return _seq(tree, icf, ASCII_STAR, "S" if hb else None)
        if not hb:
            return z3.Concat(ASCII_STAR, _seq(tree, icf, ASCII_STAR, None))
        return z3.Union(_seq(tree, icf, ASCII_STAR, "S"),
                        z3.Concat(ENDS["W"], _seq(tree, icf, ASCII_STAR, "W")),
                        z3.Concat(ENDS["N"], _seq(tree, icf, ASCII_STAR, "N")))
    raise ValueError(mode)


# ----------------------------------------------------------------- building blocks for reference languages
def lit(s):
    return z3.Re(z3.StringVal(s))


def ci(s):
    """case-insensitive literal"""
    parts = [cls(_fold([ord(c)], True)) for c in s]
    return parts[0] if len(parts) == 1 else z3.Concat(*parts)


def cat(*rs):
    rs = [r for r in rs]
    return rs[0] if len(rs) == 1 else z3.Concat(*rs)


def alt(*rs):
    return rs[0] if len(rs) == 1 else z3.Union(*rs)


def star(r):
    return z3.Star(r)


def plus(r):
    return z3.Plus(r)


def opt(r):
    return z3.Option(r)


def chars(s):
    return cls([ord(c) for c in s])


def notchars(s):
    return cls([c for c in range(128) if chr(c) not in s])


BL = star(lit(" "))
BL1 = plus(lit(" "))
LETTER = cls([c for c in range(128) if chr(c).isalpha()])
NAME = cat(alt(LETTER, lit("_")), star(W))


# ----------------------------------------------------------------- queries
_Q = {"n": 0, "t": 0.0}


def stats():
    return dict(_Q)


def _unescape(s: str) -> str:
    return re.sub(r"\\u\{([0-9a-fA-F]+)\}", lambda m: chr(int(m.group(1), 16)), s)


def witness(r, timeout_ms=30000):
    """-> ('unsat'|'sat'|'unknown', witness or None, seconds)"""
    s = z3.String("s")
    sol = z3.Solver()
    sol.set("timeout", timeout_ms)
    sol.add(z3.InRe(s, r))
    t = time.time()
    res = str(sol.check())
    dt = time.time() - t
    _Q["n"] += 1
    _Q["t"] += dt
    w = None
    if res == "sat":
        w = _unescape(sol.model()[s].as_string())
    return res, w, dt


def diff(a, b):
    return z3.Intersect(a, z3.Complement(b))


def subset(a, b, **kw):
    """a subseteq b ?  -> (holds: True/False/None, counterexample, seconds)"""
    res, w, dt = witness(diff(a, b), **kw)
    return (True if res == "unsat" else False if res == "sat" else None), w, dt


def disjoint(a, b, **kw):
    res, w, dt = witness(z3.Intersect(a, b), **kw)
    return (True if res == "unsat" else False if res == "sat" else None), w, dt


def member(text: str, r) -> bool:
    sol = z3.Solver()
    sol.set("timeout", 20000)
    sol.add(z3.InRe(z3.StringVal(text), r))
    t = time.time()
    res = str(sol.check())
    _Q["n"] += 1
    _Q["t"] += time.time() - t
    if res == "unknown":
        raise Unsupported("unknown membership")
    return res == "sat"


def validate(p, strings, mode="match"):
    """translator validation: z3 membership vs the real re on concrete ASCII strings.
    -> (checked, disagreements[list])"""
    L = lang(p, mode)
    f = {"match": p.match, "fullmatch": p.fullmatch, "search": p.search}[mode]
    bad = []
    n = 0
    for t in strings:
        if not t.isascii():
            continue
        n += 1
        if member(t, L) != (f(t) is not None):
            bad.append(t)
    return n, bad
