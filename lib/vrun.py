"""Runner: discharges a property's obligations with the solver-based engines,
replays counterexamples on the plain interpreter, applies known findings,
writes evidence.  See DESIGN.md sections 2 and 4.

Obligation kinds
  XH      a CrossHair condition: harness function with a PEP-316 contract in
          /verif/harness/<file>; symbolic execution of the real fortls code
          with z3 deciding every branch; one OS process per condition.
  Script  a python script (run with the overlay interpreter) that discharges
          one or more solver obligations itself (RX regex->z3 queries, z3
          encodings regenerated from the source) and prints one line per
          obligation:  @@R {json}
"""
from __future__ import annotations

import ast
import concurrent.futures as cf
import hashlib
import json
import os
import re
import subprocess
import sys
import time
from dataclasses import dataclass, field

from . import env as E

VERIF = E.VERIF
HARNESS_DIR = os.path.join(VERIF, "harness")
REPLAYS = os.path.join(VERIF, "replays")
EVIDENCE = os.path.join(VERIF, "evidence")
EXIT_OK, EXIT_VIOLATION, EXIT_HARNESS = 0, 1, 3


@dataclass
class XH:
    name: str
    file: str
    func: str
    timeout: int = 60
    env: dict = field(default_factory=dict)
    twin: bool = True
    what: str = ""
    path_timeout: int = 30


def parts(name, file, func, n, timeout, what="", env=None, **kw):
    """n sibling conditions of one harness, each fixing (leading var) % n == i"""
    out = []
    for i in range(n):
        e = dict(env or {})
        e.update(VERIF_PART=i, VERIF_NPART=n)
        out.append(XH(f"{name}.p{i}", file, func, timeout, env=e, what=what if i == 0 else "", **kw))
    return out


@dataclass
class Script:
    name: str
    argv: list
    timeout: int = 300
    what: str = ""


@dataclass
class Result:
    name: str
    kind: str
    status: str  # discharged | violated | inconclusive | error
    detail: str = ""
    call: str | None = None
    wall_s: float = 0.0
    paths: int = 0
    paths_post: int = 0
    solver_s: float = 0.0
    queries: int = 0
    sample: object = None
    replay_code: str | None = None
    ob: object = None
    twin_status: str = ""
    extra: dict = field(default_factory=dict)


def func_line(path: str, func: str) -> int:
    tree = ast.parse(open(path).read())
    for node in ast.walk(tree):
        if isinstance(node, ast.FunctionDef) and node.name == func:
            return node.lineno + 1
    raise KeyError(f"{func} not in {path}")


def _twin_file(path: str, func: str, workdir: str, tag: str = "") -> str:
    """Copy of the harness module in which `func`'s postcondition is False."""
    src = open(path).read().split("\n")
    tree = ast.parse("\n".join(src))
    for node in ast.walk(tree):
        if isinstance(node, ast.FunctionDef) and node.name == func:
            lo, hi = node.lineno, node.body[0].end_lineno
            done = False
            for i in range(lo, hi):
                if re.match(r"\s*post:", src[i]):
                    src[i] = re.sub(r"post:.*", "post: False", src[i])
                    done = True
            if not done:
                raise ValueError("no post: line in " + func)
            break
    else:
        raise KeyError(func)
    out = os.path.join(workdir, os.path.basename(path)[:-3] + f"__twin_{func}_{tag}.py")
    with open(out, "w") as f:
        f.write("\n".join(src))
    return out


_LINE = re.compile(r"^(?P<file>[^:\n]+):(?P<line>\d+): (?P<sev>info|error|warning): (?P<msg>.*)$")


def _parse_crosshair(out: str):
    """-> (status, message, call)"""
    status, msg, call = None, "", None
    for ln in out.splitlines():
        m = _LINE.match(ln.strip())
        if not m:
            continue
        sev, text = m.group("sev"), m.group("msg")
        if sev == "error":
            status, msg = "counterexample", text
            c = re.search(r"when calling (.*?)(?: \(which returns .*\))?$", text)
            call = c.group(1) if c else None
            return status, msg, call
        if "Confirmed over all paths" in text:
            status, msg = "confirmed", text
        elif "Not confirmed" in text:
            status, msg = "not_confirmed", text
        elif "Unable to meet precondition" in text:
            status, msg = "no_precondition", text
    return status, msg, call


def _run_crosshair(py, file, func, timeout, path_timeout, envx, countfile):
    line = func_line(file, func)
    cmd = [py, "-m", "crosshair", "check", "--report_all",
           "--per_condition_timeout", str(timeout),
           "--per_path_timeout", str(path_timeout), f"{file}:{line}"]
    env = dict(os.environ)
    env.update({k: str(v) for k, v in envx.items()})
    env.setdefault("VERIF_TIER", os.environ.get("VERIF_TIER_RUN", "quick"))
    env["PYTHONPATH"] = VERIF + os.pathsep + env.get("PYTHONPATH", "")
    env["VERIF_COUNT_FILE"] = countfile
    env["PYTHONHASHSEED"] = "0"
    t0 = time.time()
    try:
        r = subprocess.run(cmd, capture_output=True, text=True, env=env, cwd=VERIF,
                           timeout=timeout * 1.5 + 90)
        out, rc = r.stdout + "\n" + r.stderr, r.returncode
    except subprocess.TimeoutExpired as e:
        out = (e.stdout or b"").decode(errors="replace") if isinstance(e.stdout, bytes) else (e.stdout or "")
        rc = -9
    dt = time.time() - t0
    counts = {}
    for ln in out.splitlines():
        if ln.startswith("@@COUNT "):
            try:
                counts = json.loads(ln[8:])
            except ValueError:
                pass
    return out, rc, dt, counts


def run_xh(py: str, ob: XH, workdir: str) -> Result:
    file = os.path.join(HARNESS_DIR, ob.file)
    tag = hashlib.sha1((ob.name + json.dumps(ob.env, sort_keys=True)).encode()).hexdigest()[:10]
    out, rc, dt, counts = _run_crosshair(py, file, ob.func, ob.timeout, ob.path_timeout, ob.env,
                                         os.path.join(workdir, f"cnt_{tag}.json"))
    st, msg, call = _parse_crosshair(out)
    c = counts.get(ob.func, [0, 0])
    res = Result(ob.name, "XH", "inconclusive", wall_s=dt, paths=c[0], paths_post=c[1], ob=ob)
    if st == "confirmed":
        res.status, res.detail = "discharged", "Confirmed over all paths"
    elif st == "counterexample":
        res.status, res.detail, res.call = "violated", msg, call
    elif st in ("not_confirmed", "no_precondition"):
        res.detail = msg + f" (timeout {ob.timeout}s)"
    else:
        res.status = "error" if rc not in (0, 1, -9) else "inconclusive"
        res.detail = f"no verdict (rc={rc}): " + out.strip()[-400:]
    return res


def run_twin(py: str, ob: XH, workdir: str) -> Result:
    file = os.path.join(HARNESS_DIR, ob.file)
    tag = hashlib.sha1(("twin" + ob.name + json.dumps(ob.env, sort_keys=True)).encode()).hexdigest()[:10]
    tw = _twin_file(file, ob.func, workdir, tag)
    out, rc, dt, counts = _run_crosshair(py, tw, ob.func, min(ob.timeout, 60), ob.path_timeout, ob.env,
                                         os.path.join(workdir, f"cnt_{tag}.json"))
    st, msg, call = _parse_crosshair(out)
    res = Result(ob.name, "TWIN", "inconclusive", wall_s=dt, ob=ob)
    if st == "counterexample":
        res.status, res.call, res.detail = "reachable", call, msg
    elif st in ("confirmed", "no_precondition"):
        res.status, res.detail = "vacuous", msg
    else:
        res.detail = f"twin: {st} rc={rc} " + out.strip()[-200:]
    return res


def run_script(py: str, ob: Script, tier: str, seed: int) -> list:
    env = dict(os.environ)
    env["PYTHONPATH"] = VERIF + os.pathsep + env.get("PYTHONPATH", "")
    env["VERIF_TIER"], env["VERIF_SEED"] = tier, str(seed)
    t0 = time.time()
    try:
        r = subprocess.run([py] + [a if not a.endswith(".py") else os.path.join(VERIF, a) for a in ob.argv],
                           capture_output=True, text=True, env=env, cwd=VERIF, timeout=ob.timeout)
        out, err, rc = r.stdout, r.stderr, r.returncode
    except subprocess.TimeoutExpired as e:
        out = e.stdout.decode(errors="replace") if isinstance(e.stdout, bytes) else (e.stdout or "")
        err, rc = "timeout", -9
    dt = time.time() - t0
    results = []
    for ln in out.splitlines():
        if ln.startswith("@@R "):
            d = json.loads(ln[4:])
            results.append(Result(ob.name + "/" + d["name"], "SMT", d["status"], d.get("detail", ""),
                                  wall_s=d.get("wall_s", 0.0), solver_s=d.get("solver_s", 0.0),
                                  queries=d.get("queries", 0), sample=d.get("sample"),
                                  replay_code=d.get("replay_code"), ob=ob, extra=d.get("extra", {})))
    if rc != 0 or not results:
        results.append(Result(ob.name, "SMT", "error" if rc != -9 else "inconclusive",
                              f"script rc={rc}: {err.strip()[-600:]}", wall_s=dt, ob=ob))
    return results


def _write_replay(pid: str, res: Result) -> str:
    os.makedirs(REPLAYS, exist_ok=True)
    if res.kind == "XH":
        ob = res.ob
        file = os.path.join(HARNESS_DIR, ob.file)
        code = f'''#!/usr/bin/env python
"""Replay of a solver counterexample for property {pid}, obligation {res.name}.
Run with /verif/.venv/bin/python (plain interpreter, no symbolic tracing).
Exit 1 = the violation reproduces on the code under /repo; exit 0 = it does not.
CrossHair message: {res.detail!r}
"""
import importlib.util, os, sys
os.environ.update({ {k: str(v) for k, v in ob.env.items()}!r})
sys.path.insert(0, {VERIF!r})
spec = importlib.util.spec_from_file_location("harness_mod", {file!r})
m = importlib.util.module_from_spec(spec); spec.loader.exec_module(m)
try:
    r = eval({res.call!r}, m.__dict__)
except Exception as e:
    print("REPLAY: raised", type(e).__name__, e); sys.exit(1)
print("REPLAY: {res.call} ->", r)
sys.exit(0 if r else 1)
'''
    else:
        code = res.replay_code or "import sys; sys.exit(2)\n"
    h = hashlib.sha1(code.encode()).hexdigest()[:10]
    path = os.path.join(REPLAYS, f"{pid}_{re.sub(r'[^A-Za-z0-9_.-]', '_', res.name)}_{h}.py")
    with open(path, "w") as f:
        f.write(code)
    return path


def _replay(py: str, path: str) -> tuple:
    env = dict(os.environ)
    env["PYTHONPATH"] = VERIF + os.pathsep + env.get("PYTHONPATH", "")
    try:
        r = subprocess.run([py, path], capture_output=True, text=True, env=env, cwd=VERIF, timeout=300)
        return r.returncode, (r.stdout + r.stderr).strip()[-500:]
    except subprocess.TimeoutExpired:
        return -9, "replay timeout"


def load_known():
    try:
        return json.load(open(os.path.join(VERIF, "known_findings.json")))
    except (OSError, ValueError):
        return {"findings": [], "fixed": []}


def run_check(pid: str, tier: str, spec: dict) -> int:
    """spec: dict(obligations=[XH|Script...], functions=[...], bounds=str,
    assumptions=[...], outside=[...], kf_witness={id: XH-like call})"""
    t_start = time.time()
    os.environ["VERIF_TIER_RUN"] = tier
    os.environ["VERIF_TIER"] = tier
    seed = int(os.environ.get("VERIF_SEED", "0") or 0)
    py = E.ensure_env()
    workdir = os.path.join(E.WORK, f"{pid}_{tier}_{os.getpid()}")
    os.makedirs(workdir, exist_ok=True)
    obs = spec["obligations"]
    ncpu = int(os.environ.get("VERIF_JOBS", str(os.cpu_count() or 4)))
    results, twins = [], {}
    with cf.ThreadPoolExecutor(max_workers=ncpu) as ex:
        futs = {}
        for ob in obs:
            if isinstance(ob, XH):
                futs[ex.submit(run_xh, py, ob, workdir)] = ("xh", ob)
                if ob.twin:
                    futs[ex.submit(run_twin, py, ob, workdir)] = ("twin", ob)
            else:
                futs[ex.submit(run_script, py, ob, tier, seed)] = ("script", ob)
        for fu in cf.as_completed(futs):
            kind, ob = futs[fu]
            try:
                r = fu.result()
            except Exception as e:  # runner fault
                r = Result(ob.name, "XH" if kind != "script" else "SMT", "error", f"runner: {e!r}", ob=ob)
            if kind == "twin":
                twins[ob.name] = r
            elif kind == "script":
                results.extend(r)
            else:
                results.append(r)
    order = {ob.name: i for i, ob in enumerate(obs)}
    results.sort(key=lambda r: (order.get(r.name.split("/")[0], 999), r.name))

    known = load_known()
    kf_ids = {f["id"]: f for f in known.get("findings", []) if f.get("property") == pid}
    violations, harness_errors, lines = [], [], []
    # known findings: each must still reproduce (witness), printed once
    for fid, f in kf_ids.items():
        wit = f.get("witness_replay")
        note = ""
        if wit:
            rc, out = _replay(py, os.path.join(VERIF, wit))
            note = " (still reproduces)" if rc == 1 else f" (witness rc={rc}: no longer reproduces?)"
        lines.append(f"KNOWN-FINDING: property={pid} {f.get('what', fid)}{note}")
    for r in results:
        tw = twins.get(r.name)
        if tw is not None:
            r.twin_status = tw.status
            if r.status == "discharged" and tw.status == "vacuous":
                r.status, r.detail = "inconclusive", "VACUOUS harness: reachability twin could not reach the postcondition"
                harness_errors.append(r.name)
            elif r.status == "discharged" and tw.status != "reachable":
                r.detail += f" [twin {tw.status}: {tw.detail[:80]}]"
            if tw.call and r.sample is None:
                r.sample = tw.call
        if r.status == "violated":
            path = _write_replay(pid, r)
            rc, out = _replay(py, path)
            if rc == 1:
                kf = r.extra.get("kf") if r.extra else None
                if kf and kf in kf_ids:
                    continue
                violations.append((r, path, out))
            else:
                r.status = "error"
                r.detail = f"counterexample did not reproduce on plain interpreter (rc={rc}): {r.detail} || {out[-200:]}"
                harness_errors.append(r.name)
        elif r.status == "error":
            harness_errors.append(r.name)

    n_ob = len(results)
    n_dis = sum(1 for r in results if r.status == "discharged")
    n_inc = sum(1 for r in results if r.status == "inconclusive")
    paths = sum(r.paths for r in results)
    paths_post = sum(r.paths_post for r in results)
    queries = sum(r.queries for r in results)
    solver_s = sum(r.solver_s for r in results)
    for r in results:
        tag = {"discharged": "OK  ", "violated": "FAIL", "inconclusive": "INCONCLUSIVE", "error": "HARNESS-ERROR"}[r.status]
        print(f"[{pid}] {tag} {r.kind} {r.name}  paths={r.paths} queries={r.queries} {r.wall_s:.1f}s  {r.detail[:160]}")
    for ln in lines:
        print(ln)
    for r, path, out in violations:
        print(f"VIOLATION property={pid} replay={path}")
        print(f"   obligation={r.name} :: {r.detail[:300]}")
    samples = []
    for r in results[:40]:
        samples.append({"obligation": r.name, "engine": r.kind, "status": r.status,
                        "what": getattr(r.ob, "what", ""), "reachability_witness_or_sample": r.sample,
                        "paths": r.paths, "queries": r.queries})
    wall = time.time() - t_start
    evid = {
        "property_id": pid, "tier": tier, "seed": seed, "level": "model_checking",
        "coverage": {
            "evaluations": max(1, paths + queries),
            "distinct_nontrivial": max(0, paths_post + sum(r.queries for r in results if r.status == "discharged")),
            "rule": ("evaluations = symbolic paths executed by CrossHair through the real fortls functions "
                     "(each path = one z3-decided class of inputs; counted by the harness wrapper) + SMT queries "
                     "issued by the regex/arith encodings; distinct_nontrivial = paths that satisfied the "
                     "precondition AND ran to the postcondition (distinct by construction of the path tree) "
                     "+ queries answered unsat/sat definitively"),
            "samples": samples,
            "obligations": n_ob, "discharged": n_dis, "inconclusive": n_inc,
            "harness_errors": harness_errors,
            "symbolic_paths": paths, "paths_reaching_postcondition": paths_post,
            "smt_queries": queries, "solver_s": round(solver_s, 2),
            "functions_encoded": spec.get("functions", []),
            "bounds": spec.get("bounds", ""),
            "outside_claim": spec.get("outside", []),
            "exhaustive": False,
            "explanation": ("bounded symbolic execution (CrossHair+z3) of the real functions and z3 regular-language "
                            "queries over the repo's own regex patterns, regenerated from /repo on every run; "
                            "a discharged obligation holds for every input inside its stated bound; "
                            "inconclusive obligations are not counted as success"),
            "engine_versions": spec.get("versions", "crosshair-tool 0.0.110, z3-solver 4.x wheel (python)"),
        },
        "assumptions": spec.get("assumptions", []),
        "wall_s": round(wall, 2),
        "violations": len(violations),
        "known_findings_reported": list(kf_ids),
    }
    os.makedirs(EVIDENCE, exist_ok=True)
    with open(os.path.join(EVIDENCE, f"{pid}.json"), "w") as f:
        json.dump(evid, f, indent=1, default=str)
    print(f"[{pid}] tier={tier} obligations={n_ob} discharged={n_dis} inconclusive={n_inc} "
          f"violations={len(violations)} harness_errors={len(harness_errors)} paths={paths} queries={queries} wall={wall:.1f}s")
    subprocess.run(["rm", "-rf", workdir])
    if violations:
        return EXIT_VIOLATION
    if harness_errors and os.environ.get("VERIF_STRICT") == "1":
        return EXIT_HARNESS
    return EXIT_OK
