"""Overlay virtualenv used by every check.

/verif/.venv is created from /venv/bin/python, sees /venv's site-packages and
/repo (by reference, so every run executes the current working tree), and gets
crosshair-tool + z3-solver from the offline wheelhouse.  Idempotent; safe to
call concurrently (file lock).  Nothing is fetched from a network.
"""
import fcntl
import os
import subprocess
import sys

VERIF = os.path.dirname(os.path.dirname(os.path.abspath(__file__)))
VENV = os.path.join(VERIF, ".venv")
PY = os.path.join(VENV, "bin", "python")
BASE_PY = "/venv/bin/python"
BASE_SITE = "/venv/lib/python3.12/site-packages"
WHEELS = "/opt/veriftools/wheels"
REPO = os.environ.get("VERIF_REPO", "/repo")
WORK = os.path.join(VERIF, ".work")


def _ok() -> bool:
    if not os.path.exists(PY):
        return False
    r = subprocess.run(
        [PY, "-c", "import crosshair, z3, fortls, json5; print(fortls.__file__)"],
        capture_output=True,
        text=True,
    )
    return r.returncode == 0 and r.stdout.strip().startswith(REPO + "/")


def ensure_env(verbose: bool = False) -> str:
    os.makedirs(WORK, exist_ok=True)
    if _ok():
        return PY
    lock = open(os.path.join(VERIF, ".venv.lock"), "w")
    fcntl.flock(lock, fcntl.LOCK_EX)
    try:
        if _ok():
            return PY
        subprocess.run(["rm", "-rf", VENV], check=True)
        subprocess.run([BASE_PY, "-m", "venv", VENV], check=True)
        sp = os.path.join(VENV, "lib", "python3.12", "site-packages")
        with open(os.path.join(sp, "_verif_overlay.pth"), "w") as f:
            f.write(f"import site; site.addsitedir({BASE_SITE!r})\n{REPO}\n")
        env = dict(os.environ, PIP_NO_INDEX="1", PIP_DISABLE_PIP_VERSION_CHECK="1")
        r = subprocess.run(
            [PY, "-m", "pip", "install", "-q", "--no-index", "--find-links", WHEELS,
             "crosshair-tool", "z3-solver"],
            env=env, capture_output=True, text=True,
        )
        if r.returncode != 0 or not _ok():
            sys.stderr.write(r.stdout + r.stderr)
            raise SystemExit("verif: could not build overlay venv")
        if verbose:
            print("verif: overlay venv ready at", VENV)
        return PY
    finally:
        fcntl.flock(lock, fcntl.LOCK_UN)
        lock.close()


if __name__ == "__main__":
    ensure_env(verbose=True)
    print("ok")
