"""Program model, renderer and layout engine shared by C04 / C13 / C14 (and the semantic harnesses).

A program is a list of logical statements, each a token list (so that it can be split at any token boundary),
produced from a small structural model; the model also yields the ORACLE: which scopes exist, their kind, name,
parent, and the logical statements that open and close them; which variables are declared where.

layout() turns logical statements into physical lines under a layout description (free form with the
meaning-preserving transformations of C13, or fixed form for C14) and returns the map statement -> physical line.
"""
from __future__ import annotations

import re

KW = {"module", "end", "program", "subroutine", "function", "contains", "implicit", "none", "integer", "real", "type",
      "interface", "abstract", "procedure", "block", "do", "if", "then", "select", "case", "associate", "where",
      "use", "only", "call", "result", "submodule", "continue", "public", "private", "extends", "generic", "class",
      "default", "is", "intent", "in", "dimension", "parameter", "character", "len", "logical", "else"}


class St:
    """logical statement"""

    def __init__(self, toks, opens=None, closes=None, decl=None, label=None, kind="stmt"):
        self.toks = list(toks)
        self.opens = opens      # scope id opened by this statement
        self.closes = closes    # scope id(s) closed by this statement (list)
        self.decl = decl        # list of (varname, scope id)
        self.label = label      # numeric statement label (fixed form DO termination)
        self.kind = kind

    def text(self):
        return "".join(self.toks)


def T(s: str):
    """tokenise canonical text: identifiers, numbers, blanks, single punctuation"""
    return re.findall(r"[A-Za-z_]\w*|\d+|\s+|=>|::|'[^']*'|.", s)


class Scope:
    def __init__(self, sid, kind, name, parent):
        self.sid, self.kind, self.name, self.parent = sid, kind, name, parent
        self.open_st = self.close_st = None
        self.members = []  # for types: (name, kind, stmt index)


class Prog:
    def __init__(self):
        self.sts: list[St] = []
        self.scopes: list[Scope] = []
        self.stack: list[int] = []
        self.vars = []  # (name, scope id, stmt index, type text)
        self.links = []  # (owner kind, owner name, target name): bindings the index must resolve

    # --------------------------------------------------------------------------------- building
    def _open(self, kind, name, text, label=None):
        parent = self.stack[-1] if self.stack else None
        sc = Scope(len(self.scopes), kind, name, parent)
        self.scopes.append(sc)
        sc.open_st = len(self.sts)
        self.sts.append(St(T(text), opens=sc.sid, label=label, kind="open"))
        self.stack.append(sc.sid)
        return sc.sid

    def _close(self, text, n=1, label=None):
        sids = [self.stack.pop() for _ in range(n)]
        for sid in sids:
            self.scopes[sid].close_st = len(self.sts)
        self.sts.append(St(T(text), closes=sids, label=label, kind="close"))

    def guard(self, text):
        """a SELECT TYPE guard: closes the region of the previous guard (a scope of its own in the index) and opens the next"""
        sid = self.stack.pop()
        self.scopes[sid].close_st = len(self.sts)
        sc = Scope(len(self.scopes), "select", "#SELECT", self.stack[-1])
        self.scopes.append(sc)
        sc.open_st = len(self.sts)
        self.sts.append(St(T(text), opens=sc.sid, closes=[sid], kind="open"))
        self.stack.append(sc.sid)

    def stmt(self, text, decl=None, kind="stmt"):
        self.sts.append(St(T(text), decl=decl, kind=kind))
        return len(self.sts) - 1

    def var(self, name, typ="integer"):
        sid = self.stack[-1]
        i = self.stmt(f"{typ} :: {name}", decl=[(name, sid)], kind="decl")
        self.vars.append((name, sid, i, typ))
        sc = self.scopes[sid]
        if sc.kind == "type":
            sc.members.append((name, "var", i))

    def end(self, variant=0, n=1):
        sc = self.scopes[self.stack[-1]]
        kw = {"sub": "subroutine", "fun": "function", "module": "module", "program": "program", "submodule": "submodule",
              "type": "type", "interface": "interface", "block": "block", "do": "do", "if": "if", "select": "select",
              "assoc": "associate", "where": "where", "ifbody": None}[sc.kind]
        unit = sc.kind in ("sub", "fun", "module", "program", "submodule")
        named = sc.name and not sc.name.startswith("#")
        if variant == 0 and named and sc.kind not in ("do", "if", "select", "assoc", "where", "block"):
            text = f"end {kw} {sc.name}"
        elif variant == 2 and unit:
            text = "end"
        elif variant == 3:
            text = f"end{kw}"
        else:
            text = f"end {kw}"
        self._close(text, n)

    def fqsn(self, sid):
        parts = []
        while sid is not None:
            parts.append(self.scopes[sid].name.lower())
            sid = self.scopes[sid].parent
        return "::".join(reversed(parts))


# ------------------------------------------------------------------------------------- item catalogue
def add_item(p: Prog, item: int, ev: int, ctr: list, depth=0, nested=-1):
    """append catalogue item `item` to the current scope of p; `nested` = catalogue index placed inside it (or -1)"""
    top = p.scopes[p.stack[-1]]
    ctr[0] += 1
    k = ctr[0]

    def inner():
        if nested >= 0 and depth == 0:
            add_item(p, nested, ev, ctr, depth + 1)

    if item == 0:
        p.var(f"v{k}")
    elif item == 1:
        p.stmt(f"x{k} = {k}")
    elif item == 2:
        p._open("block", f"#BLOCK", "block")
        p.var(f"bv{k}")
        inner()
        p.end(ev)
    elif item == 3:
        p._open("do", "#DO", f"do i{k} = 1, 3")
        inner()
        p.end(ev)
    elif item == 4:
        p._open("if", "#IF", f"if (x{k} > 0) then")
        inner()
        p.end(ev)
    elif item == 5:
        p._open("select", "#SELECT", f"select case (x{k})")
        p.stmt("case (1)")
        inner()
        p.end(ev)
    elif item == 6:
        p._open("assoc", "#ASSOC", f"associate (a{k} => x{k})")
        inner()
        p.end(ev)
    elif item == 7:
        p._open("where", "#WHERE", f"where (arr{k} > 0)")
        p.stmt(f"arr{k} = 0")
        p.end(ev)
    elif item == 8:
        p.stmt(f"call ext{k}(x{k}, 'end do; end')")
    elif item == 9:
        p.stmt(f"if (x{k} > 0) call ext{k}()")
    elif item == 10:
        p.stmt(f"where (arr{k} > 0) arr{k} = 1")
    elif item == 11:  # labelled DO terminated by a labelled CONTINUE (closes like fixed-form code does)
        p._open("do", "#DO", f"do {10 * k} i{k} = 1, 3")
        inner()
        p._close("continue", label=str(10 * k))
    elif item == 12:  # two nested labelled DO loops sharing one termination label
        p._open("do", "#DO", f"do {10 * k} i{k} = 1, 3")
        p._open("do", "#DO", f"do {10 * k} j{k} = 1, 3")
        inner()
        p._close("continue", n=2, label=str(10 * k))
    elif item == 13:  # labelled DO closed by a labelled END DO; the label is used again by later loops (e.g. of the next procedure)
        lab = str(77 + depth)
        p._open("do", "#DO", f"do {lab} i{k} = 1, 3")
        inner()
        p._close("end do", label=lab)
    elif item == 14:  # the same label again, terminated by CONTINUE
        lab = str(77 + depth)
        p._open("do", "#DO", f"do {lab} i{k} = 1, 3")
        inner()
        p._close("continue", label=lab)
    elif item == 15:  # SELECT TYPE whose CLASS DEFAULT guard is not the last one
        p._open("select", "#SELECT", f"select type (z{k} => x{k})")
        def region_var():  # the associate name is an entity of every guard region, declared on the guard's line
            sid = p.stack[-1]
            p.vars.append((f"z{k}", sid, p.scopes[sid].open_st, "class"))

        p._open("select", "#SELECT", "class default")  # each guard's region is a scope up to the next guard
        region_var()
        p.stmt(f"y{k} = 0")
        p.guard("type is (integer)")
        region_var()
        inner()
        p.guard("type is (real)")
        region_var()
        p.end(ev, n=2)
    elif item == 16:  # assignments to variables whose names start like keywords
        p.stmt(f"blocks({k}) = 2")
        p.stmt(f"interfaces({k}) = 2")
        p.stmt(f"block_size{k} = blocks({k})")
        p.stmt(f"endv{k} = f{k}(1)")
        p.stmt(f"end_time({k}) = 0")
    else:
        raise ValueError(item)


EXEC_ITEMS = [1, 2, 3, 4, 5, 6, 7, 8, 9, 10, 11, 12, 13, 14, 15, 16]
N_EXEC = len(EXEC_ITEMS)


def add_type(p: Prog, k: int, ev: int, with_binding: bool, parent: str | None = None):
    ext = f", extends({parent})" if parent else ""
    p._open("type", f"t{k}", f"type{ext} :: t{k}")
    if parent:
        p.links.append(("extends", f"t{k}", parent))
    p.var(f"c{k}")
    if with_binding:
        p.stmt("contains", kind="contains")
        i = p.stmt(f"procedure :: m{k} => s{k}", kind="binding")
        p.scopes[p.stack[-1]].members.append((f"m{k}", "method", i))
        p.vars.append((f"m{k}", p.stack[-1], i, "procedure"))
        p.links.append(("method", f"m{k}", f"s{k}"))
    p.end(ev)


def add_interface(p: Prog, k: int, ev: int, form: int):
    """form 0: named generic with module procedure; 1: abstract interface with body; 2: unnamed with body"""
    if form == 0:
        p._open("interface", f"g{k}", f"interface g{k}")
        p.stmt(f"module procedure s{k}")
        p.links.append(("generic", f"g{k}", f"s{k}"))
        p.end(ev)
    elif form in (3, 4):  # defined operator / assignment: an unnamed generic block
        p._open("interface", "#GEN_INT", "interface operator(+)" if form == 3 else "interface assignment(=)")
        p.stmt(f"module procedure s{k}")
        p.end(1)
    else:
        p._open("interface", "#GEN_INT", "abstract interface" if form == 1 else "interface")
        p._open("sub", f"ib{k}", f"subroutine ib{k}(a)")
        p.var("a")
        p.end(ev)
        p.end(1)


def add_proc(p: Prog, k: int, ev: int, fun: bool, body, nested_proc: bool):
    """procedure s<k> / f<k> with executable items `body` (list of (item, nested)); optionally an internal procedure"""
    ctr = [100 * k]
    if fun:
        p._open("fun", f"s{k}", f"function s{k}(a) result(r)")
        p.var("a")
        p.var("r", "real")
    else:
        p._open("sub", f"s{k}", f"subroutine s{k}(a, b)")
        p.var("a")
        p.var("b", "real")
    for it, ne in body:
        add_item(p, it, ev, ctr, 0, ne)
    if nested_proc:
        p.stmt("contains", kind="contains")
        p._open("sub", f"in{k}", f"subroutine in{k}()")
        p.stmt(f"a = {k}")
        p.end(ev)
    p.end(ev)


# ------------------------------------------------------------------------------------- layout
class Layout:
    """physical rendering of logical statements"""

    def __init__(self, form="free", case=0, blank_before=None, comment_before=None, trail_blank=False,
                 trail_comment=None, split=None, lead_amp=False, join=None, indent=2, eol="\n", fixed_cchar="C",
                 fixed_cont="&", cont_gap=None, cont_comment=None, base_indent=0, split2=None, cont_gap2=None):
        self.split2 = split2                  # second token boundary (> the first) of the split statement: three pieces
        self.cont_gap2 = cont_gap2            # gap line between the second and the third piece
        self.cont_comment = cont_comment      # trailing comment after the '&' of a continued line (may itself contain '&')
        self.base_indent = base_indent        # blanks in front of every free-form line
        self.cont_gap = cont_gap              # a blank / whitespace-only / comment line between continuation lines
        self.form, self.case = form, case
        self.blank_before = blank_before      # stmt index before which a blank line is inserted (or None)
        self.comment_before = comment_before  # stmt index before which an ordinary comment line is inserted
        self.trail_blank, self.trail_comment = trail_blank, trail_comment  # stmt index with trailing comment
        self.split = split                    # (stmt index, token boundary k) -> continuation
        self.lead_amp = lead_amp
        self.join = join                      # stmt index joined with the next one by ';'
        self.indent, self.eol = indent, eol
        self.fixed_cchar, self.fixed_cont = fixed_cchar, fixed_cont


def _case(tok: str, mode: int) -> str:
    if mode == 0 or not re.match(r"[A-Za-z_]", tok) or tok.startswith("'"):
        return tok
    if mode == 1:
        return tok.upper()
    if mode == 2:
        return tok.upper() if tok.lower() in KW else tok
    return "".join(c.upper() if i % 2 else c.lower() for i, c in enumerate(tok))  # mIxEd


def layout(p: Prog, lay: Layout):
    """-> (lines, line_of) with line_of[stmt index] = 0-based physical line where the statement STARTS"""
    lines, line_of = [], {}
    depth = 0
    fixed = lay.form == "fixed"
    i = 0
    n = len(p.sts)
    while i < n:
        st = p.sts[i]
        if st.kind == "close" or st.kind == "contains":
            depth_here = max(depth - 1, 0)
        else:
            depth_here = depth
        if lay.blank_before == i:
            lines.append("")
        if lay.comment_before == i:
            lines.append((lay.fixed_cchar + " ordinary comment end do") if fixed else (" " * (lay.indent * depth_here) + "! ordinary comment; end do"))
        toks = [_case(t, lay.case) for t in st.toks]
        ind = " " * (lay.base_indent + lay.indent * depth_here)
        label = st.label
        if fixed:
            head = (label or "").ljust(5) + " " if label else "      "
            ind = head + ind
        ind_cont = ind  # a continuation line carries no label
        if not fixed and label:
            ind = ind + label + " "
        line_of[i] = len(lines)
        if lay.split is not None and lay.split[0] == i and 0 < lay.split[1] < len(toks):
            k = lay.split[1]
            k2 = lay.split2 if (lay.split2 is not None and k < lay.split2 < len(toks)) else None
            first, second = "".join(toks[:k]), "".join(toks[k:k2] if k2 else toks[k:])
            third = "".join(toks[k2:]) if k2 else None
            if fixed:
                lines.append(ind + first)
                if lay.cont_gap is not None:
                    lines.append(lay.fixed_cchar + lay.cont_gap if lay.cont_gap.strip() else lay.cont_gap)
                lines.append("     " + lay.fixed_cont + " " * len(ind[6:]) + second)
                if third is not None:
                    if lay.cont_gap2 is not None:
                        lines.append(lay.fixed_cchar + lay.cont_gap2 if lay.cont_gap2.strip() else lay.cont_gap2)
                    lines.append("     " + lay.fixed_cont + " " * len(ind[6:]) + third)
            else:
                lines.append(ind + first + " &" + (lay.cont_comment or ""))
                if lay.cont_gap is not None:
                    lines.append(lay.cont_gap)
                lines.append(ind_cont + ("& " if lay.lead_amp else "  ") + second + (" &" if third is not None else ""))
                if third is not None:
                    if lay.cont_gap2 is not None:
                        lines.append(lay.cont_gap2)
                    lines.append(ind_cont + ("& " if lay.lead_amp else "  ") + third)
        elif lay.join == i and i + 1 < n and not fixed and not p.sts[i + 1].label and p.sts[i + 1].kind != "x":
            nxt = p.sts[i + 1]
            line_of[i + 1] = len(lines)
            lines.append(ind + "".join(toks) + "; " + "".join(_case(t, lay.case) for t in nxt.toks))
            # the joined statement updates nesting as usual
            for s2 in (st, nxt):
                if s2.opens is not None:
                    depth += 1
                if s2.closes:
                    depth -= len(s2.closes)
            i += 2
            continue
        else:
            lines.append(ind + "".join(toks))
        if lay.trail_comment == i:
            lines[-1] += " ! trailing; end"
        if lay.trail_blank:
            lines[-1] += "   "
        if st.opens is not None:
            depth += 1
        if st.closes:
            depth -= len(st.closes)
        i += 1
    return lines, line_of


def expected_scopes(p: Prog, line_of):
    """[(kind, name, parent fqsn, start line, end line)] 0-based lines"""
    out = []
    for sc in p.scopes:
        out.append((sc.kind, sc.name, p.fqsn(sc.parent) if sc.parent is not None else None,
                    line_of[sc.open_st], line_of[sc.close_st]))
    return out
