"""Harness-side helpers (imported by every /verif/harness/*.py).

* silence(): logging / traceback formatting are environment, stubbed to
  constants (DESIGN 2.1) - they were the source of float/time realisations.
* tick()/tock(): count harness executions (= CrossHair paths that met the
  precondition / that reached the postcondition); dumped at exit to the file
  named by VERIF_COUNT_FILE so the runner can report measured path counts.
* kf_active(id): whether a known finding is listed in known_findings.json
  (the file is read, never written).
"""
import atexit
import json
import logging
import os

VERIF = os.path.dirname(os.path.dirname(os.path.abspath(__file__)))
_COUNTS = {}


def tick(name: str) -> None:
    c = _COUNTS.get(name)
    if c is None:
        c = _COUNTS[name] = [0, 0]
    c[0] += 1


def tock(name: str) -> None:
    c = _COUNTS.get(name)
    if c is None:
        c = _COUNTS[name] = [0, 0]
    c[1] += 1


def _dump():
    # CrossHair's audit wall blocks file writes: report on stderr instead
    if os.environ.get("VERIF_COUNT_FILE"):
        try:
            import sys

            sys.__stderr__.write("\n@@COUNT " + json.dumps(_COUNTS) + "\n")
            sys.__stderr__.flush()
        except Exception:
            pass


atexit.register(_dump)


def silence():
    logging.disable(logging.CRITICAL)
    from fortls.constants import log

    log.disabled = True
    import fortls.langserver as L

    class _TB:
        @staticmethod
        def format_exc(*a, **k):
            return "tb"

    L.traceback = _TB


def conc(i, lo: int, hi: int) -> int:
    """fork on the value of a bounded symbolic int so that everything computed from it
    (slices of concrete strings in particular) is concrete on the path"""
    for v in range(lo, hi + 1):
        if i == v:
            return v
    raise AssertionError("conc: value outside stated bound")


def part() -> int:
    return int(os.environ.get("VERIF_PART", "0"))


def npart() -> int:
    return int(os.environ.get("VERIF_NPART", "1"))


_KF = None


def known_findings():
    global _KF
    if _KF is None:
        try:
            with open(os.path.join(VERIF, "known_findings.json")) as f:
                _KF = json.load(f)
        except (OSError, ValueError):
            _KF = {"findings": [], "fixed": []}
    return _KF


def kf_active(fid: str) -> bool:
    return any(f.get("id") == fid for f in known_findings().get("findings", []))
