"""In-memory workspace around the REAL LangServer for harnesses.

Disk I/O is the environment: `open` inside fortls.parsers.internal.parser and
os.path.isfile inside fortls.langserver are redirected to a dict of texts; the
real load_from_disk / update_workspace_file / serve_onSave / handle run on top.
Everything a client would see is captured by a recording connection.
"""
import io
import os

from lib.hx import silence

silence()

import fortls.langserver as L  # noqa: E402
import fortls.parsers.internal.parser as P  # noqa: E402
from fortls.interface import cli  # noqa: E402
from fortls.jsonrpc import path_to_uri  # noqa: E402
from fortls.langserver import LangServer  # noqa: E402

FILES = {}
ROOT = "/vws"


class Hang(BaseException):
    pass


HUNG = [False]


def guarded(fn, seconds=15):
    """run fn() under a wall-clock budget: -> (result, hung).  Unbounded work (a property
    violation for C03/C20: 'bounded time') becomes an observable outcome instead of a timeout
    of the analysis.  The server swallows exceptions in notification handlers, hence the flag."""
    import resource
    import signal

    state = {"hung": False}
    HUNG[0] = False

    def on_alarm(signum, frame):
        state["hung"] = True
        HUNG[0] = True
        raise Hang()

    try:
        soft, hard = resource.getrlimit(resource.RLIMIT_AS)
        if soft == resource.RLIM_INFINITY or soft > (12 << 30):
            resource.setrlimit(resource.RLIMIT_AS, (12 << 30, hard))
    except (ValueError, OSError):
        pass
    old = signal.signal(signal.SIGALRM, on_alarm)
    signal.setitimer(signal.ITIMER_REAL, seconds, 0.02)  # keeps firing: the server swallows exceptions
    res = None
    try:
        res = fn()
    except Hang:
        pass
    except MemoryError:
        state["hung"] = True
    finally:
        signal.setitimer(signal.ITIMER_REAL, 0)
        signal.signal(signal.SIGALRM, old)
        HUNG[0] = False
    return res, state["hung"]


def _open(path, *a, **k):
    p = str(path)
    if HUNG[0]:  # budget exhausted: the disk "disappears" so that include recursion behind bare `except:` unwinds
        raise Hang()
    if p in FILES:
        return io.StringIO(FILES[p])
    raise FileNotFoundError(p)


P.open = _open
_real_isfile = os.path.isfile


class _OSPath:
    def __getattr__(self, n):
        return getattr(os.path, n)

    @staticmethod
    def isfile(p):
        return not HUNG[0] and str(p) in FILES


class _OS:
    path = _OSPath()

    def __getattr__(self, n):
        return getattr(os, n)


L.os = _OS()
P.os = _OS()


class Conn:
    def __init__(self):
        self.out = []

    def write_response(self, rid, result):
        self.out.append(("resp", rid, result))

    def write_error(self, rid, code, message, data=None):
        self.out.append(("err", rid, code, message))

    def send_notification(self, method, params):
        self.out.append(("notif", method, params))


def make_server(args=("--incremental_sync", "--disable_autoupdate", "--enable_code_actions", "--use_signature_help")):
    srv = LangServer(Conn(), vars(cli("fortls").parse_args(list(args))))
    srv.root_path = ROOT
    srv._load_intrinsics()
    srv._base_tree = dict(srv.obj_tree)
    return srv


def reset(srv, files: dict):
    """fresh index over `files` (path -> text) through the real didOpen handler"""
    FILES.clear()
    FILES.update(files)
    srv.workspace = {}
    srv.obj_tree = dict(srv._base_tree)
    srv.link_version = 0
    srv.pp_defs = {}
    srv.conn.out = []
    srv.post_messages = []
    for p in files:
        if HUNG[0]:
            raise Hang()
        srv.handle({"jsonrpc": "2.0", "method": "textDocument/didOpen",
                    "params": {"textDocument": {"uri": path_to_uri(p)}}})
    return srv


class _Result:
    def __init__(self, fn, args):
        self.fn, self.args = fn, args

    def get(self):
        # the arguments reach a worker process as a pickled copy: what the task does to them stays there
        import copy

        return self.fn(*copy.deepcopy(self.args))


class _InProcessPool:
    """stand-in for multiprocessing.Pool in LangServer.workspace_init: the per-file work (the real file_init) runs in
    this process when the result is fetched; scheduling / pickling are the environment (see C15, not applicable)"""

    def __init__(self, processes=None):
        pass

    def apply_async(self, fn, args=()):
        return _Result(fn, args)

    def close(self):
        pass

    def join(self):
        pass


def fresh_init(srv, files: dict, order=None):
    """index `files` the way a freshly started server does: the REAL workspace_init (file_init per file, merge of the
    results, resolve_includes and resolve_links over the whole workspace) with the directory walk replaced by the
    given file list and the process pool by an in-process stand-in.  No didOpen / didSave: no history at all."""
    FILES.clear()
    FILES.update(files)
    srv.workspace = {}
    srv.obj_tree = dict(srv._base_tree)
    srv.link_version = 0
    srv.pp_defs = {}
    srv.conn.out = []
    srv.post_messages = []
    lst = list(order) if order is not None else sorted(files)
    srv._get_source_files = lambda: lst
    old = L.Pool
    L.Pool = _InProcessPool
    try:
        srv.workspace_init()
    finally:
        L.Pool = old
        del srv._get_source_files
    return srv


def request(srv, method, path, line, char, rid=7, extra=None):
    """-> ('resp', result) | ('err', code, message)"""
    params = {"textDocument": {"uri": path_to_uri(path)}, "position": {"line": line, "character": char},
              "newName": "zz_new", "context": {"includeDeclaration": True},
              "range": {"start": {"line": line, "character": char}, "end": {"line": line, "character": char}}}
    if extra:
        params.update(extra)
    n0 = len(srv.conn.out)
    if HUNG[0]:
        raise Hang()
    srv.handle({"jsonrpc": "2.0", "id": rid, "method": method, "params": params})
    outs = [o for o in srv.conn.out[n0:] if o[0] != "notif"]
    if len(outs) != 1 or outs[0][1] != rid:
        return ("err", -1, "no single response: %r" % (outs,))
    o = outs[0]
    return ("resp", o[2]) if o[0] == "resp" else ("err", o[2], o[3])


POSITIONAL = ["textDocument/hover", "textDocument/definition", "textDocument/implementation",
              "textDocument/references", "textDocument/documentHighlight", "textDocument/rename",
              "textDocument/signatureHelp", "textDocument/completion", "textDocument/codeAction"]


def doc_lines(srv, path):
    f = srv.workspace.get(path)
    return f.contents_split if f is not None else None


def _pos_ok(srv, uri_or_path, rng) -> bool:
    from fortls.jsonrpc import path_from_uri

    path = path_from_uri(uri_or_path) if str(uri_or_path).startswith("file://") else uri_or_path
    lines = doc_lines(srv, path)
    if lines is None:
        return False
    s, e = rng["start"], rng["end"]
    for p in (s, e):
        if not (isinstance(p["line"], int) and isinstance(p["character"], int)):
            return False
        if not (0 <= p["line"] < len(lines) and 0 <= p["character"] <= len(lines[p["line"]])):
            return False
    return (s["line"], s["character"]) <= (e["line"], e["character"])


def ranges_ok(srv, method, path, result) -> bool:
    """every location / range / text edit in a positional result addresses an existing place"""
    if result is None:
        return True
    uri = path_to_uri(path)
    if method in ("textDocument/definition", "textDocument/implementation"):
        return isinstance(result, dict) and _pos_ok(srv, result["uri"], result["range"])
    if method in ("textDocument/references", "textDocument/documentHighlight"):
        return isinstance(result, list) and all(_pos_ok(srv, r["uri"], r["range"]) for r in result)
    if method == "textDocument/rename":
        if not (isinstance(result, dict) and isinstance(result.get("changes"), dict)):
            return False
        return all(_pos_ok(srv, u, e["range"]) and isinstance(e["newText"], str)
                   for u, edits in result["changes"].items() for e in edits)
    if method == "textDocument/hover":
        return isinstance(result, dict) and isinstance(result["contents"]["value"], str)
    if method == "textDocument/signatureHelp":
        return (isinstance(result, dict) and isinstance(result["signatures"], list)
                and isinstance(result["activeParameter"], int) and result["activeParameter"] >= 0)
    if method == "textDocument/completion":
        return isinstance(result, list) and all(isinstance(i.get("label"), str) for i in result)
    if method == "textDocument/codeAction":
        if not isinstance(result, list):
            return False
        for act in result:
            for u, edits in act.get("edit", {}).get("changes", {}).items():
                if not all(_pos_ok(srv, u, e["range"]) for e in edits):
                    return False
            for d in act.get("diagnostics", []) or []:
                if not _pos_ok(srv, uri, d["range"]):
                    return False
        return True
    return True


def diagnostics(srv, path):
    """diagnostics the server would publish for `path` (real get_diagnostics)"""
    diags, exc = srv.get_diagnostics(path_to_uri(path))
    if exc is not None:
        raise exc
    return diags or []
