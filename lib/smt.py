"""Helpers for Script obligations (solver queries issued directly, not through CrossHair)."""
import glob
import json
import os
import random
import sys
import time

from . import rx

REPO = os.environ.get("VERIF_REPO", "/repo")


def emit(name, status, detail="", **kw):
    d = dict(name=name, status=status, detail=detail)
    d.update(kw)
    sys.stdout.write("@@R " + json.dumps(d) + "\n")
    sys.stdout.flush()


def corpus(limit=4000, seed=0):
    """lines of the repo's own test sources (translator validation inputs)"""
    lines = []
    for f in sorted(glob.glob(os.path.join(REPO, "test", "test_source", "**", "*"), recursive=True)):
        if os.path.isfile(f) and not f.endswith((".json", ".md", ".txt")):
            try:
                for ln in open(f, encoding="utf-8", errors="replace").read().splitlines():
                    if ln.isascii():
                        lines.append(ln)
            except OSError:
                pass
    lines = sorted(set(lines))
    random.Random(seed).shuffle(lines)
    return lines[:limit]


class Ob:
    """one solver obligation: runs fn() -> (ok: True/False/None, detail, sample, replay_code)"""

    def __init__(self, name):
        self.name = name
        self.t0 = time.time()
        self.q0 = rx.stats()

    def done(self, ok, detail="", sample=None, replay_code=None, extra=None):
        q1 = rx.stats()
        status = "discharged" if ok is True else "violated" if ok is False else "inconclusive"
        emit(self.name, status, detail, wall_s=round(time.time() - self.t0, 3), queries=q1["n"] - self.q0["n"],
             solver_s=round(q1["t"] - self.q0["t"], 3), sample=sample, replay_code=replay_code, extra=extra or {})


def run_ob(name, fn):
    ob = Ob(name)
    try:
        r = fn()
    except rx.Unsupported as e:
        ob.done(None, f"unsupported by the translator: {e}")
        return
    except Exception as e:  # encoding fault, not a verdict
        emit(name, "error", f"{type(e).__name__}: {e}")
        return
    ok, detail = r[0], r[1]
    ob.done(ok, detail, *(r[2:]))


REPLAY_HEAD = '''#!/usr/bin/env python
"""Replay of a solver witness (RX engine) against the real `re` objects / functions of /repo.
Exit 1 = the violation reproduces; 0 = it does not."""
import sys
sys.path.insert(0, "/verif")
'''
