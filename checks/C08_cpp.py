"""Validation of the C08 reference model (harness/C08_pp.ref_pp) against GNU cpp on skeletons drawn from the same
generator.  Not a verdict about fortls: a disagreement here means the ORACLE is wrong (harness error)."""
import os
import random
import subprocess
import sys
import tempfile

sys.path.insert(0, "/verif")
from lib import smt

import harness.C08_pp as H


def cpp_run(lines, defs0):
    with tempfile.TemporaryDirectory() as td:
        p = os.path.join(td, "t.c")
        open(p, "w").write("\n".join(lines) + "\n")
        dflags = [f"-D{k}={v}" for k, v in defs0.items()]
        out = subprocess.run(["cpp", "-P", "-undef", "-w"] + dflags + [p], capture_output=True, text=True)
        if out.returncode != 0:
            return None, None
        act = sorted(ln.strip() for ln in out.stdout.splitlines() if ln.strip().startswith("integer"))
        dm = subprocess.run(["cpp", "-undef", "-w", "-dM"] + dflags + [p], capture_output=True, text=True)
        table = {}
        for ln in dm.stdout.splitlines():
            parts = ln.split(None, 2)
            if len(parts) >= 2 and parts[0] == "#define" and not parts[1].startswith("_"):
                table[parts[1]] = parts[2] if len(parts) > 2 else ""
        return act, table


def main():
    seed = int(os.environ.get("VERIF_SEED", "0") or 0)
    rnd = random.Random(seed)
    n = 400 if os.environ.get("VERIF_TIER") == "thorough" else 120
    progs = []
    gen = H.gen_items(H.MAXL, 0)
    pool = [p for i, p in zip(range(200000), gen) if p]
    progs = rnd.sample(pool, min(n, len(pool)))
    checked = bad = skipped = 0
    first_bad = None
    for prog in progs:
        for a in (False, True):
            for b in (False, True):
                defs0 = {}
                if a:
                    defs0["A"] = 1
                if b:
                    defs0["B"] = 2
                try:
                    act, rdefs = H.ref_pp(prog, dict(defs0))
                except H.Redefinition:
                    skipped += 1
                    continue
                lines = H.render(prog)
                cact, ctable = cpp_run(lines, defs0)
                if cact is None:
                    skipped += 1
                    continue
                checked += 1
                want = sorted(f"integer :: v{i}" for i in act)
                wtab = {k: str(v) for k, v in rdefs.items()}
                ctab = {k: (v if v != "" else "1") for k, v in ctable.items()}
                # `#define C` (no value) has an empty body in cpp; the model stores 1 (only definedness is observable)
                if cact != want or ctab != wtab:
                    bad += 1
                    first_bad = first_bad or (lines, defs0, cact, want, ctab, wtab)
    ob = smt.Ob("oracle.ref_model_vs_gnu_cpp")
    ob.done(True if bad == 0 and checked > 0 else None,
            f"reference model == GNU cpp on {checked} (skeleton, initial defs) pairs, {skipped} skipped (redefinition / cpp error); disagreements: {bad} {first_bad}",
            sample={"checked": checked})
    if bad:
        smt.emit("oracle.ref_model_vs_gnu_cpp.FAULT", "error", f"oracle disagrees with cpp: {first_bad}")


if __name__ == "__main__":
    main()
