from lib.vrun import XH, parts

F = "C01_handle.py"


def spec(tier):
    q = tier == "quick"
    obs = parts("H1.step", F, "step", 5, 150 if q else 600,
                what="one handle() step: symbolic method class (dispatch keys read from source + complement reps), id presence/kind/value, handler outcome, running flag")
    obs += parts("H2.run3", F, "run3", 8 if q else 16, 150 if q else 1500,
                 what="run() loop over <=3 symbolic messages then EOF: order, one response each, survives handler failure, stops only at exit/EOF")
    obs += [
        XH("H3.sync", F, "sync", 150 if q else 900,
           what="real didOpen/didSave/didClose/didChange bodies with nondeterministic parse/diagnostics/apply_change outcome: no response to notifications, emitted ids are received ids"),
    ]
    obs += parts("J.payloads", "C09_positions.py", "opt_sweep", 8, 250 if q else 2500, path_timeout=120,
                 what="serialisability of real handler results: the C09 option-set sweep (all columns x 9 positional methods on 4 documents under 6 option sets incl. diagnostics disabled + code actions): every result must be JSON-serialisable - a non-serialisable result makes write_response raise outside handle()'s try block and stops the server")
    obs += [XH("B.session", F, "session", 250 if q else 900, path_timeout=120,
               what="a real session at the byte level: real LangServer.run behind the real JSONRPC2Connection/ReadWriter over byte buffers, real handlers incl. initialize (process pool replaced by an in-process stand-in), a second initialize request at any position, an unknown method whose name holds non-ASCII text, repeated requests, a notification, exit; read back by an independent byte-level frame reader: every frame decodes, every request id has exactly one response, in request order")]
    return dict(
        obligations=obs,
        functions=["LangServer.handle", "LangServer.run", "LangServer.serve_default", "LangServer.serve_exit",
                   "LangServer.post_message", "LangServer.send_diagnostics", "LangServer.get_diagnostics",
                   "LangServer.serve_onSave", "LangServer.serve_onOpen", "LangServer.serve_onClose",
                   "LangServer.serve_onChange"],
        bounds="H1: any of the dispatch-table methods (read from the AST of handle) + 7 unknown/near-miss names, "
               "id absent / any int / 4 strings, 8 handler outcomes, running in {T,F}; H2: sequences of <=3 messages; "
               "H3: 4 sync methods x known/unknown file x 3 parse outcomes x 4 diagnostic outcomes x 3 apply outcomes",
        assumptions=["handlers are stubs with the contract 'return a JSON value or raise Exception' (H1/H2)",
                     "connection object records writes; transport bytes are C16",
                     "update_workspace_file, FortranFile.check_file, apply_change replaced by nondeterministic stubs in H3",
                     "logging and traceback.format_exc stubbed to constants",
                     "unknown-method classes are complete because dict.get compares str by equality"],
        outside=["messages lacking 'method'", "real handler bodies (C09)", "sequences longer than 3 except through the one-step induction of H1"],
    )
