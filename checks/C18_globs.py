"""C18 path obligations on a REAL temporary directory tree (created under the system temp dir, removed afterwards):
resolve_globs / LangServer._resolve_globs_in_paths / _add_source_dirs / _get_source_files against an independent
reference expansion (fnmatch per path component, '**' = any number of directories, names starting with a dot are
ordinary names - the rule the function documents).  The pattern space (which components, which wildcards) is
enumerated from a small grammar; the solver decides nothing here: this is a Script obligation next to the RX ones."""
import fnmatch
import itertools
import os
import shutil
import sys
import tempfile

sys.path.insert(0, "/verif")
from lib import smt

from fortls.helper_functions import resolve_globs
from fortls.interface import cli
from fortls.langserver import LangServer

TREE = ["a.f90", "src/b.f90", "src/deep/c.f90", "src/.cache/h.f90", ".generated/g.f90", "src/.scratch.f90", "other/d.f90", "other/api/e.f90",
        "src/x_gen.f90", "zinc", "src/data_inc"]


def ref_glob(root, pattern):
    """independent expansion: every existing path below root whose components match the pattern's components"""
    parts = [p for p in pattern.split("/") if p not in ("", ".")]
    if not parts:
        return {root}
    out = set()

    def walk(path, i):
        if i == len(parts):
            out.add(path)
            return
        part = parts[i]
        if part == "**":
            walk(path, i + 1)
            if os.path.isdir(path):
                for n in sorted(os.listdir(path)):
                    if os.path.isdir(os.path.join(path, n)):
                        walk(os.path.join(path, n), i)
            return
        if part == "..":
            walk(os.path.dirname(path), i + 1)
            return
        if not os.path.isdir(path):
            return
        for n in sorted(os.listdir(path)):
            if fnmatch.fnmatchcase(n, part):
                p = os.path.join(path, n)
                if i + 1 < len(parts) or True:
                    walk(p, i + 1)

    walk(root, 0)
    # pathlib: a trailing '**' or a trailing '/' yields directories only
    if parts[-1] == "**" or pattern.endswith("/"):
        out = {p for p in out if os.path.isdir(p)}
    return out


PATTERNS = [".", "", "./", "src", "src/", "sr*", "*", "*/", "**", "**/", "src/**", "src/*", "**/*_gen.f90", "**/api", "*/deep", "src/.*", ".*", "**/.*",
            "src/../other", "nonexistent", "no*/x", "**/deep/*.f90", "s?c", "[so]*", "other/*/e.f90"]


# a violation is replayed by running this script again on the plain interpreter (it rebuilds its own temporary tree)
REPLAY = (smt.REPLAY_HEAD + "import subprocess\nr = subprocess.run([sys.executable, '/verif/checks/C18_globs.py'], capture_output=True, text=True)\n"
          "bad = [ln for ln in r.stdout.splitlines() if '\"status\": \"violated\"' in ln or '\"status\": \"error\"' in ln]\n"
          "print('\\n'.join(x[:1500] for x in bad) or 'no violation')\nsys.exit(1 if bad else 0)\n")


class _C:
    def __init__(self):
        self.out = []

    def send_notification(self, m, p):
        self.out.append((m, p))

    def write_response(self, *a):
        pass

    def write_error(self, *a):
        pass


def main():
    root = tempfile.mkdtemp(prefix="verif_c18_")
    try:
        for rel in TREE:
            p = os.path.join(root, rel)
            os.makedirs(os.path.dirname(p), exist_ok=True)
            open(p, "w").write("module m_" + rel.replace("/", "_").replace(".", "_") + "\nend module\n")
        real_root = os.path.realpath(root)

        def ob_globs():
            bad = []
            for pat in PATTERNS:
                try:
                    got = set(resolve_globs(pat, real_root))
                except Exception as e:  # noqa: BLE001
                    bad.append((pat, f"raised {type(e).__name__}: {e}"))
                    continue
                want = ref_glob(real_root, pat)
                if got != want:
                    bad.append((pat, sorted(os.path.relpath(x, real_root) for x in got ^ want)))
            return (not bad), f"resolve_globs == reference expansion on {len(PATTERNS)} patterns over a tree with hidden directories / files and root-naming patterns; differences: {bad[:4]}", (bad[:1] or None), (REPLAY if bad else None)

        def ob_init():
            """the real start-up sequence of serve_initialize up to the file list, for source_dirs / excl_paths given on
            the command line and in the configuration file: same file set through both channels == reference set"""
            bad = []
            combos = [([], []), (["src"], []), (["src/**"], []), (["**/"], ["**/*_gen.f90"]), (["."], ["src/*"]), (["src", "other/**"], ["**/api"]),
                      ([], ["src/deep", "*.f90"]), (["*"], [".*"]), ([], ["."]), (["nonexistent"], [])]
            for sd, ex in combos:
                res = {}
                for channel in ("cli", "file"):
                    args = ["--disable_autoupdate", "--nthreads", "1"]
                    cfg = os.path.join(real_root, ".fortlsrc")
                    if os.path.exists(cfg):
                        os.remove(cfg)
                    if channel == "cli":
                        if sd:
                            args += ["--source_dirs"] + sd
                        if ex:
                            args += ["--excl_paths"] + ex
                    else:
                        import json

                        open(cfg, "w").write(json.dumps({k: v for k, v in (("source_dirs", sd), ("excl_paths", ex)) if v}))
                    srv = LangServer(_C(), vars(cli("fortls").parse_args(args)))
                    srv.root_path = real_root
                    try:
                        srv._load_config_file()
                        srv._source_dirs_configured = len(srv.source_dirs) > 0
                        if not srv._source_dirs_configured:
                            srv.source_dirs.add(srv.root_path)
                        srv._resolve_globs_in_paths()
                        srv._add_source_dirs()
                        res[channel] = sorted(os.path.relpath(f, real_root) for f in srv._get_source_files())
                    except Exception as e:  # noqa: BLE001
                        res[channel] = f"raised {type(e).__name__}: {e}"
                if os.path.exists(os.path.join(real_root, ".fortlsrc")):
                    os.remove(os.path.join(real_root, ".fortlsrc"))
                # reference: directories = expansion of source_dirs (or every directory below the root holding a source file),
                # minus excluded paths; files = *.f90 directly inside, minus excluded paths
                excl = set().union(*[ref_glob(real_root, e) for e in ex]) if ex else set()
                if sd:
                    dirs = {d for s_ in sd for d in ref_glob(real_root, s_) if os.path.isdir(d)} - excl
                else:
                    dirs = set()
                    for d, _, fs in os.walk(real_root):
                        if any(f.endswith(".f90") for f in fs) and d not in excl:
                            dirs.add(d)
                want = sorted(os.path.relpath(os.path.join(d, f), real_root) for d in dirs for f in os.listdir(d)
                              if f.endswith(".f90") and os.path.isfile(os.path.join(d, f)) and os.path.join(d, f) not in excl)
                if res["cli"] != want or res["file"] != want:
                    bad.append((sd, ex, res, want))
            return (not bad), f"file list of the start-up sequence for {len(combos)} (source_dirs, excl_paths) settings through command line and configuration file == reference; differences: {bad[:2]}", (str(bad[:1]) if bad else None), (REPLAY if bad else None)

        smt.run_ob("paths.resolve_globs", ob_globs)
        smt.run_ob("paths.startup_file_list", ob_init)
    finally:
        shutil.rmtree(root, ignore_errors=True)


if __name__ == "__main__":
    main()
