from lib.vrun import XH, parts

F = "C19_config.py"


def spec(tier):
    q = tier == "quick"
    T = 200 if q else 1500
    n = 8 if q else 16
    obs = parts("O1.one", F, "one", n, T, what="each option (inventory read from the argparse parser): symbolic presence in file, CLI value, file value (free bool/int, 3 str/list/dict values); effective == file if present else CLI; all other options untouched; derived sync_type / source-suffix regex follow")
    obs += parts("O2.pair", F, "pair", n, T, what="pairs of options (i, i+7d mod N, d=1..3) with independent presence/values")
    obs += parts("O3.fault", F, "fault", n, T, what="invalid configuration (parser ValueError, 7 non-object top levels, up to 7 wrongly typed values per option, alone or between valid ones): error message, all options keep CLI values, no exception")
    obs += [XH("E.effects", F, "effects", 250 if tier == "quick" else 900,
               what="observable effect instead of attribute values: hover text (attribute order, language tag), which declarations of a preprocessed file are indexed (pp_defs as mapping, as list of names, with numeric values), line-length diagnostics - at start-up and after a re-parse - are the same whether the option came from the command line or from the configuration file, and differ from the default")]
    return dict(
        obligations=obs,
        functions=["interface.cli", "LangServer.__init__", "LangServer._load_config_file", "_check_config_types",
                   "_load_config_file_dirs", "_load_config_file_general", "_load_config_file_preproc"],
        bounds="all options of the parser except deprecated no-ops and debug_* (except debug_log); ints free; bools free; "
               "str/list/dict from 3-value tables; pairs: 3 partners per option",
        assumptions=["json5.load stubbed (returns the harness dict, raises ValueError, or returns a non-object)",
                     "os.path.isfile/open stubbed so that a config file 'exists'", "load_intrinsics cached",
                     "CLI side = the settings dict produced by the real parser defaults with one entry overridden, passed through the real __init__"],
        outside=["the JSON5 grammar (third-party parser)", "argparse's own string->value conversion", "downstream effects of each option",
                 "serve_initialize as a whole after a faulty file (workspace_init uses a process pool)"],
    )
