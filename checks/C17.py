from lib.vrun import Script, XH, parts

F = "C17_sinks.py"


def spec(tier):
    q = tier == "quick"
    T = 280 if q else 3000
    obs = [Script("INV", ["checks/C17_inventory.py"], 120, what="AST inventory (regenerated from /repo) of every call that can execute text or write files in the fortls package; each must be one of the intended side effects (pip auto-update with constant argv, debug log, developer tools)")]
    obs += parts("H.hostile", F, "hostile", 16, T, path_timeout=250,
                 what="#if / #elif conditions, object- and function-like macro values, initial definitions and include/use names built from <=2 (quick) / <=3 (thorough) hostile tokens (import expressions, attribute access, calls, full-width identifiers, lambda, open(), exec/eval): monitors on eval/exec/compile/__import__/open(write)/os.*/subprocess.*/shutil.* never fire; text reaching eval/compile must lie in the safe expression language (z3 membership)")
    obs += parts("H.server", F, "server", 16, T, path_timeout=250,
                 what="the same documents through the real server (didOpen, diagnostics, queries, didChange, didSave, didClose) with the monitors armed")
    obs += [XH("H.docfields", F, "docfields", 120, what="doc comments containing str.format replacement fields (attribute/index chains, conversions, width), %-directives and shell syntax on a variable, a procedure, its argument and the specific procedure of a generic interface: hover, completion and signature help return them verbatim - nothing is evaluated, no error")]
    return dict(
        obligations=obs,
        functions=["preprocess_file", "eval_pp_if", "eval_pp_expr", "FortranFile.parse", "FortranFile.check_file",
                   "LangServer.update_workspace_file", "serve_onSave/onChange/onClose", "positional handlers"],
        bounds="hostile token table of 32 tokens, sequences of <=2 (quick) / <=3 (thorough) tokens x 6 document templates x {source only, also pp_defs}; server route: 2-token sequences x 3 templates",
        assumptions=["the monitors cover every Python-level sink listed by the inventory obligation; C extensions of the standard library are trusted",
                     "the auto-update path is off (disable_autoupdate) and the debug log is off", "in-memory disk"],
        outside=["code execution through bugs of CPython itself", "the developer tools fortls/debug.py and fortls/schema.py"],
    )
