from lib.vrun import parts

F = "C20_cycles.py"


def spec(tier):
    q = tier == "quick"
    obs = parts("G.cycles", F, "cycles", 16, 280 if q else 5000, path_timeout=120,
                what="every functional graph on N nodes (successor of each node = symbolic index) for 15 catalogue shapes (USE, EXTENDS in one file / across files, submodule ancestry, pointer links, ASSOCIATE, procedure pointers, mixed data/procedure pointers, type-bound + GENERIC bindings, dummy procedures whose interface is an enclosing procedure, INCLUDE, INCLUDE cycle with two outside includers, INCLUDE inside included procedures, USE cycles crossed with pointer links, INCLUDE of shared content two scopes deep) rendered to source, indexed through didOpen in 4 file-opening orders and through the real workspace_init (directory walk and process pool replaced by stand-ins) in up to 12 enumeration orders, then documentSymbol + all 9 positional requests at both ends of every identifier; no error response, no error message, ranges inside the document")
    L = "C20_links.py"
    obs += parts("S.var_links", L, "var_links", 4, 250 if q else 1500, what="TRACED: Variable/Method.resolve_link + links_back on N<=4 nodes with symbolic successor indices (pointer and procedure-pointer links), two resolution rounds: delegation chains acyclic, every delegating getter returns")
    obs += parts("S.type_links", L, "type_links", 4, 250 if q else 1500, what="TRACED: Type.resolve_inherit/_extends_self/get_overridden/get_children on N<=4 mutually extending types, two rounds")
    obs += parts("S.submod_links", L, "submod_links", 4, 250 if q else 1500, what="TRACED: Submodule.resolve_inherit/get_ancestors and find_in_scope through ancestors on N<=4 submodules with symbolic parents, two rounds")
    return dict(
        obligations=obs,
        functions=["FortranFile.parse", "LangServer.update_workspace_file", "serve_onSave", "FortranAST.resolve_includes",
                   "FortranAST.resolve_links", "Type.resolve_inherit/get_overridden", "Variable/Method.resolve_link/links_back",
                   "Associate.resolve_link", "Submodule.resolve_inherit/get_ancestors", "get_use_tree", "find_in_scope",
                   "climb_type_tree", "FortranAST.check_file", "all serve_* positional handlers"],
        bounds="N <= 3 nodes (quick) / N <= 4 (thorough) per shape: all N^N successor maps, so every cycle length 1..N with every tail; "
               "interpreter recursion limit at its default (1000): unbounded recursion surfaces as an error response",
        assumptions=["disk replaced by an in-memory file table (open/isfile redirected)", "the source renderer produces the "
                     "statement forms listed in harness/C20_cycles.py; other spellings of the same links are C13's concern"],
        outside=["cycles longer than N", "cycles mixing two link kinds", "time bounds other than the per-path timeout of 120 s"],
    )
