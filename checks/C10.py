from lib.vrun import XH, parts

F = "C10_history.py"


def spec(tier):
    q = tier == "quick"
    T = 280 if q else 3300
    obs = [XH("G.generation", F, "generation", 250 if q else 900, path_timeout=120,
              what="link generation counter: real serve_onSave from link_version = v with the extending type of another file last resolved at version w; v, w symbolic ints (range of w = what the real counter can have taken: probed from the code - wrapping or monotone); inherited members must come from the new parent; a counterexample is confirmed by a concrete history of ~1000 edits before it is reported")]
    obs += parts("H.history", F, "history", 16, T, path_timeout=300,
                 what="7-file workspace (module with type + interface + procedure; module using it with EXTENDS across 3 files / declared variables / component access / type-bound link / two INCLUDEs, one through './'; a submodule; the include files), histories of 2 (quick) / 3 (thorough; third event from every second entry) events out of 31 (query everything, edit to one of 5 versions of the module or 2 of an include file without saving, ranged edit, save a version, close, delete, re-create), all final versions, ending either with one save of exactly the files that changed (ascending / descending order) or (thorough) with every file saved twice: the dump (completion after v% and w%, 7 definitions + hovers, references, diagnostics, document and workspace symbols) equals a freshly started server's")
    obs += parts("I.init_orders", F, "init_orders", 16, T, path_timeout=300,
                 what="fresh start: the real workspace_init (directory walk and process pool replaced by stand-ins) over the 7 files in all 7! (thorough) / 840 evenly spread (quick) enumeration orders x 5 x 2 versions gives the same dump as in ascending order")
    obs += [XH("S.scenarios", F, "scenarios", 250 if q else 900, path_timeout=200,
               what="7 further cross-file scenarios on small workspaces (PASS(name) binding whose target renames its arguments; include file of dummy-argument declarations emptied / deleted / changed then deleted; user module named like an intrinsic module renamed / deleted; preprocessed files of two directories saved in turn), with and without re-opening: hover, definition, signature help, completion at the probes, diagnostics and outlines equal a fresh server's (real workspace_init)")]
    return dict(
        obligations=obs,
        functions=["workspace_init", "file_init", "serve_onOpen", "serve_onChange", "serve_onSave", "serve_onClose", "update_workspace_file", "FortranAST.resolve_links", "resolve_includes",
                   "Type.resolve_inherit", "Variable.get_type_obj/resolve_link", "Method.resolve_link", "Submodule.resolve_inherit/resolve_link", "Interface.resolve_link"],
        bounds="G: all non-negative v, w in the counter's range; H: 31 x 32 (x 32) event sequences x 5 x 2 final versions x 2 (3) endings",
        assumptions=["disk replaced by an in-memory table (load_from_disk itself runs: hashing, tab normalisation)", "sources do not share preprocessor macro names (property)",
                     "histories below the solver-chosen first event / final version are enumerated concretely; G runs the handler untraced with symbolic version numbers"],
        outside=["histories longer than 3 events (except through G)", "real disk I/O, file watchers", "worker processes and pickling of workspace initialisation (C15); its merge / resolve phase IS run (fresh server = real workspace_init)"],
    )
