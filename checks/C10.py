from lib.vrun import XH, parts

F = "C10_history.py"


def spec(tier):
    q = tier == "quick"
    T = 280 if q else 3300
    obs = [XH("G.generation", F, "generation", 250 if q else 900, path_timeout=120,
              what="link generation counter: real serve_onSave from link_version = v with the extending type of another file last resolved at version w; v, w symbolic ints (range of w = what the real counter can have taken: probed from the code - wrapping or monotone); inherited members must come from the new parent; a counterexample is confirmed by a concrete history of ~1000 edits before it is reported")]
    obs += parts("H.history", F, "history", 16, T, path_timeout=300,
                 what="4-file workspace (module with type + interface + procedure; module using it with EXTENDS / declared variables / component access / type-bound link / INCLUDE; a submodule; the include file), histories of 2 (quick) / 3 (thorough) events out of 23 (query everything, edit to one of 5 versions of the module or 2 of the include file without saving, save a version, close, delete, re-create), all final versions: after saving everything the dump (completion after v% and w%, 7 definitions + hovers, references, diagnostics, document and workspace symbols) equals a freshly started server's")
    return dict(
        obligations=obs,
        functions=["serve_onOpen", "serve_onChange", "serve_onSave", "serve_onClose", "update_workspace_file", "FortranAST.resolve_links", "resolve_includes",
                   "Type.resolve_inherit", "Variable.get_type_obj/resolve_link", "Method.resolve_link", "Submodule.resolve_inherit/resolve_link", "Interface.resolve_link"],
        bounds="G: all non-negative v, w in the counter's range; H: 23 x 24 (x 24) event sequences x 5 x 2 final versions",
        assumptions=["disk replaced by an in-memory table (load_from_disk itself runs: hashing, tab normalisation)", "sources do not share preprocessor macro names (property)",
                     "histories below the solver-chosen first event / final version are enumerated concretely; G runs the handler untraced with symbolic version numbers"],
        outside=["histories longer than 3 events (except through G)", "real disk I/O, file watchers", "workspace initialisation (C15)"],
    )
