from lib.vrun import XH, parts

F = "C02_edit.py"


def spec(tier):
    q = tier == "quick"
    obs = parts("E1.edit", F, "edit", 16, 200 if q else 1500,
                what="one ranged edit: symbolic (sl,sc,el,ec) anywhere inside the document shapes, inserted text = <=3 segments joined by LF|CR|CRLF; result == LSP reference, buffer invariant")
    obs += [XH("E2.full", F, "full", 120 if q else 600, what="whole-document replacement"),
            XH("E4.split_free", F, "split_free", 120 if q else 900,
               what="splitlines on a FREE symbolic str (len<=4, any characters) == LSP split rule")]
    obs += parts("E6.edit_pp", F, "edit_pp", 5, 150 if q else 600,
                 what="edit on a preprocessed (.F90) file after preprocess(): macro-expanded copy differs from the client's text")
    if not q:
        obs += parts("E3.edit2", F, "edit2", 16, 2400, what="two chained ranged edits (second range valid in the intermediate document)")
        obs += parts("E5.on_change", F, "on_change", 16, 2400, what="serve_onChange with two contentChanges (incremental) / one or two whole-document texts (full sync)")
    else:
        obs += parts("E5.on_change", F, "on_change", 16, 280,
                     what="serve_onChange with two contentChanges (incremental) / two whole-document texts (full sync)")
    obs += [XH("R.reopen", F, "reopen", 250 if tier == "quick" else 900, path_timeout=120,
               what="didOpen, 1-2 unsaved single-line ranged edits at symbolic positions, [didClose,] didOpen again with the file on disk unchanged: the server's text and outline are those of the disk text again (real handlers over the in-memory disk)")]
    return dict(
        obligations=obs,
        functions=["FortranFile.apply_change", "FortranFile.set_contents", "parser.splitlines",
                   "apply_change.check_change_reparse", "FortranFile.get_code_line", "helper_functions.detect_fixed_format",
                   "LangServer.serve_onChange"],
        bounds="documents: 3 (quick) / 6 (thorough) shapes of <=3 lines, <=2 chars per line; ranges: every (sl,sc,el,ec) inside the "
               "document; inserted text: 1..3 segments in {'', 'x'} joined by one of LF, CR, CRLF (so texts starting/ending with and "
               "containing consecutive breaks); mixed break kinds via the free-string obligation on splitlines (any str, len<=4); "
               "chained: 2 edits (thorough)",
        assumptions=["non-line-break characters are treated uniformly by apply_change (slice/concatenate only): one representative 'x'; "
                     "checked for splitlines by the free-string obligation E4",
                     "update_workspace_file stubbed in E5 (reparse is C03/C10)",
                     "positions are UTF-16 code units == Python str indices (BMP only)"],
        outside=["positions outside the document (line == line count)", "astral-plane characters (UTF-16 surrogate pairs)",
                 "edit sequences longer than 2 except by induction: E1 starts from an arbitrary valid buffer shape and re-establishes the buffer invariant"],
    )
