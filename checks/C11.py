from lib.vrun import XH, parts

F = "C11_hover.py"


def spec(tier):
    q = tier == "quick"
    T = 280 if q else 3000
    obs = parts("H.decls", F, "decls", 16, T, path_timeout=250,
                what="declarations: 8 type keywords x their kind/len selectors (incl. nested parentheses, *n, (len=*), *(*)) x module variable / dummy argument / local x every subset of <=2 (thorough: 3) compatible attributes in BOTH orders (allocatable, pointer, target, save, dimension(...), intent(...), optional, contiguous, public, private, parameter) x entity forms (plain, entity dimension, name*len) x 6 documentation placements: hover restates type+selector, the attribute SET with arguments, name, PARAMETER value and exactly that entity's documentation; neighbours keep theirs")
    obs += parts("S.hover_struct", F, "hover_struct", 10, 250 if q else 1500, what="TRACED: map_keywords + Variable.get_hover on any sequence of <=3 distinct attributes (symbolic indices) plus optionally one attribute with an argument, with/without kind and PARAMETER value: hover lists exactly those attributes once each with their arguments")
    obs += [XH("H.signature", F, "signature", 150 if q else 600, what="signature help at 20 cursor positions in 7 calls (positional, keyword in any order on required and optional dummies, nested parentheses before the cursor, blanks around '='): dummy arguments in declared order, each with its own declaration and documentation, and the right active parameter")]
    return dict(
        obligations=obs,
        functions=["read_var_def", "parse_var_keywords", "parse_kind", "parse_imp_dim", "parse_imp_char", "read_parameter_value", "map_keywords",
                   "get_keywords", "parse_docs", "get_docstring", "get_single_line_docstring", "Variable.get_hover", "Subroutine.get_hover/get_signature",
                   "resolve_arg_link", "serve_hover", "serve_signature", "get_paren_level"],
        bounds="about 16 000 (quick) declarations from the grammar; 20 signature positions",
        assumptions=["oracle = the declaration the line was rendered from; comparison is case- and blank-insensitive, attribute order free",
                     "declarations below the solver-chosen (type, selector, context) are enumerated concretely"],
        outside=["attribute spellings outside KEYWORD_LIST (e.g. VOLATILE, BIND(C))", "multi-entity declarations", "Doxygen tag formatting (@param...)",
                 "procedure hover text layout", "type-bound procedure signatures"],
    )
