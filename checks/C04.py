from lib.vrun import Script, XH, parts

F = "C04_outline.py"


def spec(tier):
    q = tier == "quick"
    T = 280 if q else 2500
    obs = [XH("S.scope_lines", F, "scope_lines", 120 if q else 600, what="add_scope/end_scope/close_file/get_inner_scope with FREE symbolic line numbers (module > subroutine > block, unbounded positive gaps, any query line): start/end lines, parents, innermost scope")]
    obs += [XH("S.symbol_lines", F, "symbol_lines", 200 if q else 900, what="serve_document_symbols TRACED on an index built with the real constructors and FREE symbolic line numbers: kinds, containers and 0-based start/end lines of module, type, component and procedure")]
    obs += parts("G.outline", F, "outline", 16, T, path_timeout=200,
                 what="generated programs (module: var/type+binding/3 interface forms/2 procedures with each of 11 executable items nested in each other/internal procedure; second unit program|ext sub|ext fun|submodule; 4 END variants; blank/comment gaps): documentSymbol has every unit and direct procedure/type/named interface exactly once with kind, container, start and END lines; type members under the type; no error diagnostics")
    obs += parts("G.ws_symbols", F, "ws_symbols", 8, T, path_timeout=200,
                 what="workspace/symbol over two files: every substring (len 1..3) of the declared names in 3 letter cases + non-matching queries: exactly the units and module members containing the query, sorted by name")
    obs += [Script("RX", ["checks/C04_rx.py"], 300, what="END regexes as languages: every 'END <KIND> [name]' spelling is an END_WORD match whose keyword group is accepted by that construct's END regex and by no other construct's")]
    obs += parts("G.edited_outline", F, "edited_outline", 16, T, path_timeout=200,
                 what="incremental sync: one single-line edit ('!' inserted in column 1 / removed again, a blank inserted, first non-blank character deleted) at every line of the generated programs: the outline afterwards equals a fresh server's outline of the edited text")
    return dict(
        obligations=obs,
        functions=["FortranAST.add_scope/end_scope/close_file/get_inner_scope", "FortranFile.parse", "parse_end_scope_word", "parse_do_fixed_format",
                   "serve_document_symbols", "serve_workspace_symbol", "find_in_workspace", "symbol_json", "range_json", "FRegex.END_*"],
        bounds="S: unbounded positive ints; G: 11 x 12 construct nestings x 5 second units x 3 (quick) / 12 (thorough) module variants x 4 END variants x 3 gaps; queries: all substrings of length<=3 of 10 names x 3 cases",
        assumptions=["in-memory disk", "programs below the solver-chosen (construct, END variant, gap) are enumerated concretely"],
        outside=["opener readers' text handling beyond the generator's spellings (C13)", "programs with members (workspace symbols of a PROGRAM's variables)", "symbols fortls emits in addition (interface bodies, named constructs) are not judged"],
    )
