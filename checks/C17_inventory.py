"""C17 sink inventory, regenerated from /repo's current source: every call in the fortls package that can execute
text or write to the file system must be one of the intended ones (auto-update with constant arguments, debug log,
developer tools).  AST scan - the solver part of C17 is harness/C17_sinks.py; this obligation makes sure the monitors
of that harness cover every sink that exists."""
import ast
import glob
import os
import sys

sys.path.insert(0, "/verif")
from lib import smt

REPO = smt.REPO
EXEC_NAMES = {"eval", "exec", "compile", "__import__", "execfile"}
EXEC_ATTRS = {("os", "system"), ("os", "popen"), ("os", "execv"), ("os", "execvp"), ("os", "spawnl"), ("os", "startfile"),
              ("subprocess", "run"), ("subprocess", "Popen"), ("subprocess", "call"), ("subprocess", "check_call"),
              ("subprocess", "check_output"), ("pickle", "load"), ("pickle", "loads"), ("marshal", "loads"),
              ("importlib", "import_module"), ("runpy", "run_path"), ("code", "interact")}
WRITE_ATTRS = {("os", "remove"), ("os", "unlink"), ("os", "rename"), ("os", "replace"), ("os", "mkdir"), ("os", "makedirs"),
               ("os", "rmdir"), ("os", "removedirs"), ("os", "chmod"), ("os", "truncate"), ("os", "symlink"),
               ("shutil", "rmtree"), ("shutil", "copy"), ("shutil", "copyfile"), ("shutil", "move"), ("shutil", "copytree"),
               ("tempfile", "mkstemp"), ("tempfile", "NamedTemporaryFile"), ("logging", "basicConfig"), ("logging", "FileHandler")}
PATH_WRITE_METHODS = {"write_text", "write_bytes", "unlink", "rmdir", "mkdir", "touch", "symlink_to", "hardlink_to"}
# (file, enclosing function, sink): the intended side effects named by the property
ALLOWED = {
    ("fortls/langserver.py", "_update_version_pypi", "subprocess.run"),   # pip, constant argv, off with disable_autoupdate
    ("fortls/langserver.py", "_config_logger", "logging.basicConfig"),     # the optional debug log / stderr format
    ("fortls/parsers/internal/parser.py", "parse", "logging.basicConfig"),  # debug=True only (CLI debug tools), stream=stdout
    ("fortls/parsers/internal/parser.py", "eval_pp_expr", "compile:ast-only"),
    ("fortls/parsers/internal/intrinsics.py", "update_m_intrinsics", "open:w"),  # developer tool, never called by the server
}
DEV_FILES = {"fortls/debug.py", "fortls/schema.py", "fortls/__init__.py", "fortls/_version.py", "fortls/version.py"}


def scan():
    found = []
    for f in sorted(glob.glob(os.path.join(REPO, "fortls", "**", "*.py"), recursive=True)):
        rel = os.path.relpath(f, REPO)
        tree = ast.parse(open(f).read())
        re_names = set()  # names bound to functions of `re` (from re import compile)
        for node in ast.walk(tree):
            if isinstance(node, ast.ImportFrom) and node.module == "re":
                re_names |= {a.asname or a.name for a in node.names}
        parents = {}
        for node in ast.walk(tree):
            for ch in ast.iter_child_nodes(node):
                parents[ch] = node

        def func_of(n):
            while n in parents:
                n = parents[n]
                if isinstance(n, (ast.FunctionDef, ast.AsyncFunctionDef)):
                    # outermost named function that is not nested inside preprocess_file helpers
                    return n.name
            return "<module>"

        for node in ast.walk(tree):
            if not isinstance(node, ast.Call):
                continue
            fn = node.func
            sink = None
            if isinstance(fn, ast.Name) and fn.id in EXEC_NAMES and fn.id not in re_names:
                sink = fn.id
            elif isinstance(fn, ast.Name) and fn.id == "open":
                mode = None
                if len(node.args) >= 2 and isinstance(node.args[1], ast.Constant):
                    mode = node.args[1].value
                for kw in node.keywords:
                    if kw.arg == "mode":
                        mode = kw.value.value if isinstance(kw.value, ast.Constant) else "?"
                if len(node.args) >= 2 and not isinstance(node.args[1], ast.Constant):
                    mode = "?"
                if mode is not None and any(c in str(mode) for c in "wax+?"):
                    sink = f"open:{mode}"
            elif isinstance(fn, ast.Attribute):
                base = fn.value.id if isinstance(fn.value, ast.Name) else None
                if (base, fn.attr) in EXEC_ATTRS or (base, fn.attr) in WRITE_ATTRS:
                    sink = f"{base}.{fn.attr}"
                elif fn.attr in PATH_WRITE_METHODS and base not in ("self", "re"):
                    sink = f"?.{fn.attr}"
                elif fn.attr == "parse" and base == "ast":
                    sink = "compile:ast-only"
            if sink:
                found.append((rel, func_of(node), sink, node.lineno))
    return found


def main():
    found = scan()
    bad = [x for x in found if x[0] not in DEV_FILES and (x[0], x[1], x[2]) not in ALLOWED]
    ob = smt.Ob("inventory.sinks")
    detail = f"{len(found)} sink call sites in fortls/: " + "; ".join(f"{a}:{d} {b}() {c}" for a, b, c, d in found)
    replay = None
    if bad:
        replay = smt.REPLAY_HEAD + f"print('unexpected code-execution / file-writing call sites:', {bad!r})\nsys.exit(1)\n"
        detail = f"UNEXPECTED sink(s) reachable from indexing code: {bad} || all: {detail}"
    ob.done(not bad, detail, sample=[list(x) for x in found], replay_code=replay)


if __name__ == "__main__":
    main()
