"""C13 RX obligations: the statement regexes as z3 regular languages (all ASCII strings, unbounded length)."""
import ast
import dataclasses
import glob
import os
import re
import sys

sys.path.insert(0, "/verif")
from lib import rx, smt
from lib.rx import BL, BL1, NAME, alt, cat, ci, lit, opt, star

from fortls.constants import FRegex
from fortls.regex_patterns import FortranRegularExpressions as F

# patterns that are applied to text whose letter case is not significant (everything except the preprocessor / pure punctuation ones)
CASE_SENSITIVE_OK = {"PP_ANY"}


def other_patterns():
    """re.compile(<literal>, flags) calls outside regex_patterns.py, evaluated from the current source"""
    out = []
    for f in sorted(glob.glob(os.path.join(smt.REPO, "fortls", "**", "*.py"), recursive=True)):
        if f.endswith("regex_patterns.py"):
            continue
        tree = ast.parse(open(f).read())
        for node in ast.walk(tree):
            if isinstance(node, ast.Call) and isinstance(node.func, ast.Attribute) and node.func.attr == "compile" \
                    and isinstance(node.func.value, ast.Name) and node.func.value.id == "re" and node.args \
                    and isinstance(node.args[0], ast.Constant) and isinstance(node.args[0].value, str):
                flags = 0
                if len(node.args) > 1:
                    src = ast.unparse(node.args[1])
                    flags = eval(src, {"re": re, "I": re.I})
                out.append((f"{os.path.relpath(f, smt.REPO)}:{node.lineno}", re.compile(node.args[0].value, flags)))
    return out


def mk_case(name, p):
    def ob():
        L, LI = rx.lang(p, "match"), rx.lang(p, "match", ic=True)
        ok, w, _ = rx.subset(LI, L)
        code = None
        if w:
            code = smt.REPLAY_HEAD + f"import re\np = re.compile({p.pattern!r}, {int(p.flags)})\nw = {w!r}\n" \
                "a = p.match(w) is not None; b = re.compile(p.pattern, p.flags | re.I).match(w) is not None\n" \
                "print(w, 'matches:', a, 'case-insensitively:', b)\nsys.exit(1 if a != b else 0)\n"
        return ok, (f"{name}: letter case is not significant" if ok else f"{name}: {w!r} is matched only in another letter case"), w, code
    return ob


REFS = {
    "SUB": cat(BL, ci("subroutine"), BL1, NAME), "FUN": cat(BL, ci("function"), BL1, NAME),
    "MOD": cat(BL, ci("module"), BL1, NAME), "PROG": cat(BL, ci("program"), BL1, NAME),
    "SUBMOD": cat(BL, ci("submodule"), BL, lit("(")),
    "INT": cat(BL, opt(cat(ci("abstract"), BL1)), ci("interface"), opt(cat(BL1, NAME))),
    "TYPE_DEF": cat(BL, ci("type"), alt(cat(BL1, NAME), cat(BL, lit(","), BL, ci("public"), BL, lit("::"), BL, NAME), cat(BL, lit("::"), BL, NAME))),
    "USE": cat(BL, ci("use"), BL1, NAME), "CONTAINS": cat(BL, ci("contains"), BL),
    "IMPLICIT": cat(BL, ci("implicit"), BL1, ci("none")), "BLOCK": cat(BL, opt(cat(NAME, BL, lit(":"), BL)), ci("block")),
    "DO": cat(BL, opt(cat(NAME, BL, lit(":"), BL)), ci("do"), alt(rx.EPS, cat(BL1, rx.ASCII_STAR))),
    "IF": cat(BL, opt(cat(NAME, BL, lit(":"), BL)), ci("if"), BL, lit("(")),
    "WHERE": cat(BL, ci("where"), BL, lit("(")), "ASSOCIATE": cat(BL, ci("associate"), BL, lit("(")),
    "SELECT": cat(BL, ci("select"), BL, alt(ci("case"), ci("type")), BL, lit("(")),
    "VIS": cat(BL, alt(ci("public"), ci("private")), alt(rx.EPS, cat(alt(lit(" "), lit(":"), lit(",")), rx.ASCII_STAR))),
    "INCLUDE": cat(BL, ci("include"), BL, alt(lit("'"), lit('"'))),
    "END_WORD": cat(BL, ci("end"), BL, alt(rx.EPS, cat(BL1, NAME))),
    "VAR": cat(BL, alt(*[ci(k) for k in ("integer", "real", "double precision", "doubleprecision", "complex", "character", "logical", "procedure", "external", "class", "type")])),
    "GENERIC_PRO": cat(BL, ci("generic"), alt(BL, cat(BL, lit(","), BL, alt(ci("public"), ci("private")), BL)), lit("::"), BL, rx.LETTER),
    "IMPORT": cat(BL, ci("import")),
}


def mk_ref(name):
    def ob():
        ok, w, _ = rx.subset(REFS[name], rx.lang(getattr(FRegex, name), "match"))
        code = (smt.REPLAY_HEAD + f"from fortls.constants import FRegex\nm = FRegex.{name}.match({w!r})\nprint(m)\nsys.exit(0 if m else 1)\n") if w else None
        return ok, (f"{name}: every free-form spelling of the reference statement language is matched" if ok else f"{name} does not match {w!r}"), w, code
    return ob


def ob_comment_vs_cont():
    a, w1, _ = rx.disjoint(rx.lang(FRegex.FREE_COMMENT, "match"), rx.lang(FRegex.FREE_CONT, "match"))
    b, w2, _ = rx.disjoint(rx.lang(FRegex.FREE_COMMENT, "match"), rx.lang(FRegex.PP_ANY, "match"))
    c, w3, _ = rx.subset(cat(BL, lit("!"), rx.ASCII_STAR), rx.lang(FRegex.FREE_COMMENT, "match"))
    d, w4, _ = rx.subset(cat(BL, lit("&"), rx.ASCII_STAR), rx.lang(FRegex.FREE_CONT, "match"))
    ok = a and b and c and d
    return ok, f"comment / continuation-start / preprocessor line languages are pairwise disjoint and complete ({w1!r},{w2!r},{w3!r},{w4!r})", None, None


def ob_validate():
    lines = smt.corpus(150)
    tot, bad = 0, []
    for f in dataclasses.fields(F):
        n, b = rx.validate(getattr(FRegex, f.name), lines, "match")
        tot += n
        bad += [(f.name, x) for x in b]
    return (not bad), f"translator vs real re on {tot} (pattern, line) pairs over test/test_source: {len(bad)} disagreements {bad[:3]}", None, None


if __name__ == "__main__":
    smt.run_ob("rx.validate_translator", ob_validate)
    for f in dataclasses.fields(F):
        if f.name not in CASE_SENSITIVE_OK:
            smt.run_ob(f"rx.case.{f.name}", mk_case(f.name, getattr(FRegex, f.name)))
    for where, p in other_patterns():
        smt.run_ob(f"rx.case.{where}", mk_case(where, p))
    for name in REFS:
        smt.run_ob(f"rx.ref.{name}", mk_ref(name))
    smt.run_ob("rx.comment_cont_pp", ob_comment_vs_cont)
