from lib.vrun import XH, parts

F = "C07_diag.py"


def spec(tier):
    q = tier == "quick"
    obs = [XH("S.contains_lines", F, "contains_lines", 200 if q else 900, what="Scope.check_definitions with FREE symbolic line numbers (module, CONTAINS line, two procedures): 'definition before CONTAINS' exactly for procedures whose line precedes CONTAINS, severity 1, 0-based line"),
           XH("S.use_implicit_lines", F, "use_implicit_lines", 200 if q else 900, what="Scope.check_use with FREE symbolic line numbers: 'USE after IMPLICIT' exactly when a USE line follows the IMPLICIT line, reported on the IMPLICIT line"),
           XH("S.twice_lines", F, "twice_lines", 200 if q else 900, what="Scope.check_definitions with FREE symbolic line numbers: of two declarations of one name exactly the later one is flagged 'declared twice' (severity 1, 0-based line, related line = first declaration); different names: nothing"),
           XH("D.valid", F, "valid", 120, what="the valid two-module base program (lower and upper case, 0..3 blank lines above): no error-severity diagnostic is published")]
    obs += parts("D.seeded", F, "seeded", 11, 250 if q else 1500, path_timeout=200,
                 what="33 seeded variants covering the 15 documented defect classes at several positions (module / procedure / block / internal procedure / program / top of file / between units), x 0..3 blank lines above: the class's message with its severity on the offending line is PUBLISHED by the real server on didOpen, and no error of another class")
    obs += parts("D.seeded_layout", F, "seeded_layout", 8, 250 if tier == "quick" else 1500,
                 what="the 36 defect variants under re-layout: letter case (as written / upper / title) x line ending (LF / CRLF / CR) x trailing blanks+comments x 0..3 blank lines above (quick: 3 of the 9 case/ending combinations): same class, same severity, same line, no unrelated error")
    obs += parts("D.inherit_orders", "C05_resolve.py", "inherit_orders", 8, 250 if tier == "quick" else 900,
                 what="three-level EXTENDS chain (abstract base with a deferred binding, abstract intermediate, concrete leaf) in three files plus a user, indexed in all 24 file orders by the real workspace_init and by opening the files one by one: components / bindings of every level resolve through obj%, completion after obj% offers exactly all of them, the leaf's unimplemented deferred binding is reported")
    obs += parts("D.resave", F, "resave", 8, 250 if tier == "quick" else 900,
                 what="diagnostics are a function of the text: 1-3 further saves of the unchanged file (line-length limits set) publish the same list as the first time, for the base program and every defect variant")
    return dict(
        obligations=obs,
        functions=["Scope.check_definitions", "Scope.check_use", "Variable.check_definition", "Subroutine.get_diagnostics", "Type.get_diagnostics",
                   "check_valid_parent", "FortranAST.check_file", "parse_implicit", "parse_contains", "parse_end_scope_word", "FortranFile.check_file (line length)",
                   "Diagnostic.build", "LangServer.send_diagnostics/get_diagnostics"],
        bounds="S: unbounded positive line numbers; D: one base program (2 files, 50 lines), 33 variants x 4 line offsets",
        assumptions=["one defect at a time", "the 'construct left open at a bare END' class is seeded in the last program unit (elsewhere the unbalanced unit necessarily produces follow-up errors)",
                     "in-memory disk; intrinsic modules as bundled"],
        outside=["simultaneous defects", "programs other than the base program (C04/C13 assert 'no error diagnostic' on all their generated valid programs)"],
    )
