from lib.vrun import Script, parts

F = "C13_layout.py"


def spec(tier):
    q = tier == "quick"
    T = 280 if q else 3000
    obs = [Script("RX", ["checks/C14_rx.py"], 600, what="fixed-form line languages: FIXED_COMMENT / FIXED_CONT / LINE_LABEL equal their reference languages; the per-line 'free' evidence of detect_fixed_format (FREE_FORMAT_TEST, column-1 letter, early VAR) is disjoint from the reference fixed-form line language")]
    obs += parts("X.fixed", F, "fixed", 16, T, path_timeout=250,
                 what="generated programs rendered in fixed form: comment lines flagged by C c * ! d D before every statement, blank lines, continuation in column 6 (5 marker characters) at every token boundary, labelled DO termination incl. shared labels: classified fixed, index equals the model")
    obs += parts("X.free_not_fixed", F, "free_not_fixed", 8, T, path_timeout=250,
                 what="free-form renderings (indent 0..4, 4 case modes) of the generated programs and of 8 declaration-free programs written from column 1 are never classified as fixed form")
    return dict(
        obligations=obs,
        functions=["detect_fixed_format", "get_code_line (fixed branches)", "strip_comment", "get_comment_regexs", "strip_line_label", "parse_do_fixed_format", "FortranFile.parse"],
        bounds="same program family as C13; every statement / token boundary; 6 comment characters; 5 continuation characters",
        assumptions=["oracle = the generator's structural model"],
        outside=["texts that are valid in both source forms (every line starting in column 1 begins with c/d/!/* or is blank): classification as fixed is then not wrong",
                 "tab-formatted fixed form", "columns beyond 72"],
    )
