"""C08 RX obligations: the directive regexes as languages (all ASCII strings, unbounded length)."""
import sys

sys.path.insert(0, "/verif")
from lib import rx, smt
from lib.rx import BL, BL1, NAME, alt, cat, ci, lit, notchars, star

from fortls.constants import FRegex

NP = notchars("()")


def ob_defined_balanced():
    L = rx.lang(FRegex.DEFINED, "fullmatch")
    ref = alt(star(NP), cat(star(NP), lit("("), star(NP), lit(")"), star(NP)))
    ok, w, dt = rx.subset(L, ref)
    return ok, ("every match of DEFINED has balanced parentheses" if ok else f"DEFINED matches {w!r}: unbalanced"), w, (
        smt.REPLAY_HEAD + f"from fortls.constants import FRegex\nm = FRegex.DEFINED.fullmatch({w!r})\n"
        f"print('DEFINED.fullmatch ->', m)\nsys.exit(1 if m and {w!r}.count('(') != {w!r}.count(')') else 0)\n") if w else None


def ob_defined_complete():
    L = rx.lang(FRegex.DEFINED, "fullmatch")
    ref = alt(cat(ci("defined"), BL, lit("("), BL, NAME, BL, lit(")")), cat(ci("defined"), BL1, NAME))
    ok, w, dt = rx.subset(ref, L)
    return ok, ("defined(X) / defined X in every spacing are matched" if ok else f"not matched: {w!r}"), w, (
        smt.REPLAY_HEAD + f"from fortls.constants import FRegex\nm = FRegex.DEFINED.fullmatch({w!r})\nprint(m)\nsys.exit(0 if m else 1)\n") if w else None


def mk_directive(kw, follow):
    def ob():
        L = rx.lang(FRegex.PP_REGEX, "match")
        ref = cat(BL, lit("#"), BL, lit(kw), follow, rx.ASCII_STAR)
        ok, w, dt = rx.subset(ref, L)
        return ok, (f"'#{kw}' lines in every spacing are recognised" if ok else f"directive line not recognised: {w!r}"), w, (
            smt.REPLAY_HEAD + f"from fortls.constants import FRegex\nm = FRegex.PP_REGEX.match({w!r})\nprint(m)\nsys.exit(0 if m else 1)\n") if w else None
    return ob


def ob_ppdef():
    L = rx.lang(FRegex.PP_DEF, "match")
    ref = cat(BL, lit("#"), BL, alt(lit("define"), lit("undef")), BL1, NAME, rx.ASCII_STAR)
    ok, w, dt = rx.subset(ref, L)
    return ok, ("#define/#undef NAME lines in every spacing are recognised" if ok else f"not recognised: {w!r}"), w, None


def ob_word_ident():
    L = rx.lang(FRegex.WORD, "fullmatch")
    ok, w, dt = rx.subset(NAME, L)
    return ok, ("every ASCII C identifier is a WORD (so replace_vars rewrites it)" if ok else f"identifier not a WORD: {w!r}"), w, None


def ob_validate():
    pats = [("DEFINED", "match"), ("PP_REGEX", "match"), ("PP_DEF", "match"), ("PP_INCLUDE", "match"), ("PP_ANY", "match"), ("WORD", "match")]
    lines = smt.corpus(250) + ["#if(defined(A))", "# if !defined(B) && (defined A||defined B)", "#ifdef X", "  #  define F(a, b) a+b", "#elif(X)", "#else", "#endif!"]
    tot, bad = 0, []
    for name, mode in pats:
        n, b = rx.validate(getattr(FRegex, name), lines, mode)
        tot += n
        bad += [(name, x) for x in b]
    return (not bad), f"translator vs real re on {tot} (pattern, line) pairs: {len(bad)} disagreements {bad[:3]}", None, None


if __name__ == "__main__":
    smt.run_ob("rx.validate_translator", ob_validate)
    smt.run_ob("rx.DEFINED_balanced", ob_defined_balanced)
    smt.run_ob("rx.DEFINED_complete", ob_defined_complete)
    follow_if = alt(lit(" "), lit("("), lit("!"))
    for kw, fol in (("if", follow_if), ("ifdef", BL1), ("ifndef", BL1), ("elif", follow_if), ("else", rx.EPS), ("endif", rx.EPS)):
        smt.run_ob(f"rx.PP_REGEX_{kw}", mk_directive(kw, fol))
    smt.run_ob("rx.PP_DEF", ob_ppdef)
    smt.run_ob("rx.WORD_identifiers", ob_word_ident)
