from lib.vrun import Script, parts

F = "C18_files.py"


def spec(tier):
    q = tier == "quick"
    obs = [Script("PATHS", ["checks/C18_globs.py"], 300, what="on a real temporary tree with hidden directories / files: resolve_globs == an independent fnmatch-per-component expansion for 25 patterns (incl. '.', '', '..', '**', dot names); the start-up sequence (_load_config_file, _resolve_globs_in_paths, _add_source_dirs, _get_source_files) gives the reference file set for 10 (source_dirs, excl_paths) settings through the command line and through the configuration file"),
           Script("RX", ["checks/C18_rx.py"], 300, what="L_search(create_src_file_exts_str(S)) == {names ending in a documented default suffix (any case) or a member of S} over ALL printable-ASCII file names (both inclusions, unbounded length) for 6 configurations S incl. regex metacharacters and look-alike suffixes; the same for the pattern the SERVER builds from --incl_suffixes and from the configuration file")]
    obs += parts("F.files", F, "files", 16, 280 if q else 2500, path_timeout=200,
                 what="_get_source_files/_add_source_dirs on a symbolic in-memory tree (3 nested directories x 9 content masks over 12 entry names with look-alike, mixed-case and prefix-sharing names) x source_dirs subsets x 32 exclusion-path subsets x 3 incl_suffixes x 4 excl_suffixes: result set == prescribed set")
    return dict(
        obligations=obs,
        functions=["create_src_file_exts_str", "create_src_file_exts_regex", "LangServer._get_source_files", "LangServer._add_source_dirs"],
        bounds="RX: all printable ASCII names; tree harness: 9^3 directory contents x 8 source_dirs subsets x 32 exclusion subsets x 3 x 4 suffix configurations",
        assumptions=["os.listdir/os.walk/os.path.isfile replaced by an in-memory tree", "exclusion = exact path match after glob resolution (glob expansion itself is pathlib on the real file system)"],
        outside=["glob expansion and symlink resolution", "control characters in names ('$' also matches before a final newline)", "non-ASCII names"],
    )
