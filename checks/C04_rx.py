"""C04 RX obligations on the END regexes (all ASCII strings)."""
import sys

sys.path.insert(0, "/verif")
from lib import rx, smt
from lib.rx import BL, BL1, NAME, alt, cat, ci, opt, star

from fortls.constants import FRegex

KINDS = {"DO": "END_DO", "WHERE": "END_WHERE", "IF": "END_IF", "BLOCK": "END_BLOCK", "CRITICAL": "END_BLOCK", "ASSOCIATE": "END_ASSOCIATE",
         "SELECT": "END_SELECT", "TYPE": "END_TYPED", "ENUM": "END_ENUMD", "MODULE": "END_MOD", "SUBMODULE": "END_SMOD", "PROGRAM": "END_PROG",
         "INTERFACE": "END_INT", "SUBROUTINE": "END_SUB", "FUNCTION": "END_FUN", "PROCEDURE": "END_PRO"}


def mk_recognised(kw):
    def ob():
        ref = cat(BL, ci("end"), BL, ci(kw), alt(BL, cat(BL1, NAME, BL)))
        ok, w, _ = rx.subset(ref, rx.lang(FRegex.END_WORD, "match"))
        return ok, (f"every spelling of 'END {kw} [name]' is an END_WORD match" if ok else f"not recognised: {w!r}"), w, (
            smt.REPLAY_HEAD + f"from fortls.constants import FRegex\nm = FRegex.END_WORD.match({w!r})\nprint(m)\nsys.exit(0 if m else 1)\n") if w else None
    return ob


def mk_exclusive(kw, field):
    def ob():
        own = rx.lang(getattr(FRegex, field), "match")
        word = cat(ci(kw), alt(rx.EPS, cat(BL1, rx.ASCII_STAR)))
        ok1, w1, _ = rx.subset(word, own)
        if not ok1:
            return ok1, f"{field} rejects {w1!r}", w1, None
        bad = []
        for other, f2 in KINDS.items():
            if f2 == field or other == kw:
                continue
            if other.startswith(kw) or kw.startswith(other):
                continue  # MODULE / SUBMODULE share a prefix by design of the keyword set
            if field == "END_PRO" and other == "MODULE":
                continue  # 'END MODULE PROCEDURE' is the documented optional spelling
            dis, w, _ = rx.disjoint(cat(ci(other), alt(rx.EPS, cat(BL1, rx.ASCII_STAR))), own)
            if dis is False:
                bad.append((other, w))
            elif dis is None:
                return None, "solver unknown", None, None
        return (not bad), (f"{field} accepts its own keyword and no other construct's keyword" if not bad else f"{field} also accepts {bad}"), (bad[0][1] if bad else None), None
    return ob


if __name__ == "__main__":
    pats = ["END_WORD"] + sorted(set(KINDS.values()))
    lines = smt.corpus(200) + ["end", "END DO", "enddo", "end subroutine foo", "  End  Module", "endif", "end select x", "end if;"]

    def val():
        tot, bad = 0, []
        for n in pats:
            k, b = rx.validate(getattr(FRegex, n), lines, "match")
            tot += k
            bad += [(n, x) for x in b]
        return (not bad), f"translator vs real re on {tot} pairs: {bad[:3]}", None, None
    smt.run_ob("rx.validate_translator", val)
    for kw, field in KINDS.items():
        smt.run_ob(f"rx.END_WORD_recognises_{kw}", mk_recognised(kw))
        smt.run_ob(f"rx.{field}_exclusive_{kw}", mk_exclusive(kw, field))
