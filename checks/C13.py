from lib.vrun import Script, XH, parts

F = "C13_layout.py"


def spec(tier):
    q = tier == "quick"
    T = 280 if q else 3000
    obs = [Script("RX", ["checks/C13_rx.py"], 600, what="every FRegex pattern as a z3 regular language over all ASCII strings: L(P) == L(P with case-insensitive folding of every letter) for statement patterns; comment/continuation/preprocessor line languages are what the continuation logic assumes; trailing-blank closure of the END regexes")]
    obs += [XH("X.split_free", "C02_edit.py", "split_free", 120, what="splitlines on a FREE symbolic string: no CR/LF survives, LSP line-break rule")]
    obs += parts("L.positional", F, "positional", 16, T, path_timeout=250,
                 what="generated programs under: blank line / ordinary comment line / trailing comment / ';'-join at EVERY statement in turn x 4 letter-case modes x LF|CRLF|CR x trailing blanks: parsed scopes (kind, name, parent, start line, END line under that layout), declarations and error diagnostics equal the generator's model")
    obs += parts("L.split", F, "split", 16, T, path_timeout=250,
                 what="every statement split over a '&' continuation at EVERY token boundary, with and without leading '&'")
    return dict(
        obligations=obs,
        functions=["splitlines", "FortranFile.set_contents/load path", "get_code_line", "parse (label stripping, comment cut, ';' splitting)", "strip_strings",
                   "find_paren_match", "separate_def_list", "all read_* readers", "FRegex.*"],
        bounds="programs: 12 first constructs x 1 nested x 3 second units (quick) / x 13 nested x 5 second units (thorough); transformations applied at every statement / token boundary; RX: all ASCII strings",
        assumptions=["oracle = the generator's structural model", "layouts below the solver-chosen (construct, transformation kind, case, eol) indices are enumerated concretely"],
        outside=["non-ASCII", "splits inside a lexical token or character literal", "tabs (normalised at load)", "compositions of more than one positional transformation with case/eol/trailing-blank modes"],
    )
