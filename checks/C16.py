from lib.vrun import XH, parts

F = "C16_wire.py"


def spec(tier):
    q = tier == "quick"
    T = 200 if q else 1500
    obs = [
        XH("W.send", F, "send", T, what="every writer (_send via write_response/write_error/send_notification, write_rpc_request/notification): Content-Length == UTF-8 byte length of the body for a FREE symbolic body string (any Unicode, len<=4) under the json.dumps contract selected by the call site's ensure_ascii"),
        *parts("R.recv", F, "recv", 8, T, what="two back-to-back frames, body = <=2/<=3 tokens over 1..4-byte chars, LF, CRLF and a look-alike header line; 4 header layouts incl. Content-Type first and an extra header: decoded to exactly the bodies, then EOF"),
        XH("R2.trunc", F, "recv_trunc", T, what="stream cut at any offset inside a frame: terminates with EOFError/protocol error within a bounded number of reads"),
        XH("T.transport", F, "transport", T, what="real ReadWriter over BytesIO on <=3 tokens from 1/2/3/4-byte characters + LF"),
        XH("T2.transport_big", F, "transport_big", T, what="bodies of 2^k+delta bytes (k=10..16) with a 2/3/4-byte character straddling the power-of-two offset, through the real ReadWriter/BytesIO and read_message"),
        XH("T3.main_wiring", F, "main_wiring", T, what="the real fortls.main() wiring: stdin replaced by a buffered reader over a raw stream delivering <=k bytes per call (k=1..7); the connection main() builds must decode two frames with a multi-byte body exactly (i.e. main() must hand ReadWriter a stream with the exact-n read contract)"),
        *parts("U.uri", F, "uri", 3 if q else 15, T, what="path_from_uri(path_to_uri(p)) == p for p from <=4 tokens of a special-character table (space % # ? + & = ~ non-ASCII, literal %41)"),
    ]
    return dict(
        obligations=obs,
        functions=["JSONRPC2Connection._send", "write_response", "write_error", "send_notification", "_receive",
                   "_read_header_content_length", "read_message", "write_rpc_request", "write_rpc_notification",
                   "ReadWriter.read/readline/write", "path_to_uri", "path_from_uri"],
        bounds="bodies: free symbolic str of <=4 (send) ; recv bodies: token strings of <=2 (quick) / <=3 (thorough) tokens; "
               "header layouts: 4 x extra header; truncation offset 0..70; transport: <=3 tokens; uri: <=2 (quick) / <=3 (thorough) tokens",
        assumptions=["json.dumps(ensure_ascii=True) returns ASCII (stdlib contract); json.dumps/loads replaced by a stub returning a free string / identity",
                     "BufferedReader.read(n) returns exactly n bytes unless EOF, so chunk boundaries of the OS stream cannot matter (stated, not explored)",
                     "POSIX path semantics (os.name != 'nt'); Path.resolve on a non-existent absolute path without '..' or '//' is the identity"],
        outside=["TCP transport", "C implementation of json", "Windows drive-letter URIs", "paths containing '..', '//' or a trailing blank"],
    )
