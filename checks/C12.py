from lib.vrun import XH, parts

F = "C12_complete.py"


def spec(tier):
    q = tier == "quick"
    T = 280 if q else 3000
    obs = parts("W.worlds", F, "worlds", 16, T, path_timeout=250,
                what="worlds of lib/world.py (accessibility forms x USE plain/ONLY/rename x re-export x default PRIVATE x local/host declarations): at every use site in main and in the internal procedure and for EVERY non-empty prefix of the identifier, the user-declared labels offered == names the reference resolver makes accessible there that start with the prefix; after CALL only callable ones")
    obs += [XH("C.contexts", F, "contexts", 200 if q else 600, what="21 context lines (CALL also after IF (cond)): member access chains (own + inherited components through 1 and 2 EXTENDS levels, nested, pointer, array element; nothing else offered), USE (modules only), USE..ONLY (public members of that module only), TYPE(/CLASS( (derived types only), CALL (callable only)")]
    obs += [XH("C.submods", F, "submods", 200 if q else 600, what="submodule of a submodule (SUBMODULE (m:parent) name), files opened in two orders: every entity of the submodule, its parent submodule and the ancestor module offered for every prefix and resolved to its declaration; a sibling submodule's entities are not; the outline names the unit")]
    obs += parts("C.inherit_orders", "C05_resolve.py", "inherit_orders", 8, 250 if tier == "quick" else 900,
                 what="three-level EXTENDS chain (abstract base with a deferred binding, abstract intermediate, concrete leaf) in three files plus a user, indexed in all 24 file orders by the real workspace_init and by opening the files one by one: components / bindings of every level resolve through obj%, completion after obj% offers exactly all of them, the leaf's unimplemented deferred binding is reported")
    return dict(
        obligations=obs,
        functions=["serve_autocomplete", "get_candidates", "child_candidates", "get_line_context", "get_var_stack", "get_use_tree", "climb_type_tree",
                   "Type.get_children", "Scope.get_children(public_only)", "find_in_scope"],
        bounds="same world parameter space as C05.W; all non-empty prefixes of each identifier at ~25 sites per world; 18 context lines",
        assumptions=["oracle = reference resolver of lib/world.py", "intrinsic/keyword items are ignored (comparison restricted to the world's user-declared names)",
                     "known finding C05-reexport-private-default excluded by its predicate"],
        outside=["snippets / detail text / documentation of items", "IMPORT and interface-body contexts", "procedure-link and visibility-statement contexts"],
    )
