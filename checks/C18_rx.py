"""C18 RX obligations: the source-suffix regex built by create_src_file_exts_str(S) as a z3 regular language,
compared (both inclusions, all printable-ASCII file names, unbounded length) with the documented suffix set."""
import sys

sys.path.insert(0, "/verif")
from lib import rx, smt
from lib.rx import alt, cat, ci, cls, lit, star

from fortls.regex_patterns import create_src_file_exts_regex, create_src_file_exts_str

PRINT = cls(range(32, 127))
NAMES = star(PRINT)
DEFAULT_SUFFIXES = ["f", "f77", "f90", "f95", "f03", "f05", "f08", "f18", "for", "fpp"]  # documented, case-insensitive
CONFIGS = [[], [".inc"], [".fypp", ".F"], [".f.x"], ["+c", ".a*"], [".f9"]]


def ref_lang(extra):
    alts = [cat(lit("."), ci(s)) for s in DEFAULT_SUFFIXES] + [lit(e) for e in extra]
    return cat(NAMES, alt(*alts))


def mk(extra):
    def ob():
        p = create_src_file_exts_str(list(extra))
        L = rx.z3.Intersect(rx.lang(p, "search"), NAMES)
        R = ref_lang(extra)
        ok1, w1, _ = rx.subset(L, R)
        ok2, w2, _ = rx.subset(R, L)
        if ok1 is None or ok2 is None:
            return None, "solver unknown", None, None
        if ok1 and ok2:
            return True, f"incl_suffixes={extra}: accepted names == names ending in a default suffix (any case) or a configured one", None, None
        w = w1 if not ok1 else w2
        kind = "accepted although it has no source suffix" if not ok1 else "rejected although it ends in a source suffix"
        code = (smt.REPLAY_HEAD + "from fortls.regex_patterns import create_src_file_exts_str\n"
                f"p = create_src_file_exts_str({list(extra)!r}); name = {w!r}\n"
                f"exp = name.lower().endswith(tuple('.'+s for s in {DEFAULT_SUFFIXES!r})) or name.endswith(tuple({list(extra)!r})) if {list(extra)!r} else name.lower().endswith(tuple('.'+s for s in {DEFAULT_SUFFIXES!r}))\n"
                "got = p.search(name) is not None\nprint(name, 'search ->', got, 'expected', exp)\nsys.exit(1 if got != exp else 0)\n")
        return False, f"incl_suffixes={extra}: file name {w!r} {kind}", w, code
    return ob


def mk_server(extra, via_file):
    """the pattern the SERVER uses (built in LangServer.__init__ from the command line, rebuilt by
    _load_config_file_dirs from the configuration file) - not just the library function"""
    def ob():
        from fortls.interface import cli
        from fortls.langserver import LangServer

        class _C:
            def send_notification(self, *a):
                pass
        if via_file:
            srv = LangServer(_C(), vars(cli("fortls").parse_args([])))
            srv._load_config_file_dirs({"incl_suffixes": list(extra)})
        else:
            srv = LangServer(_C(), vars(cli("fortls").parse_args(["--incl_suffixes"] + list(extra) if extra else [])))
        p = srv.FORTRAN_SRC_EXT_REGEX
        L = rx.z3.Intersect(rx.lang(p, "search"), NAMES)
        R = ref_lang(extra)
        ok1, w1, _ = rx.subset(L, R)
        ok2, w2, _ = rx.subset(R, L)
        if ok1 is None or ok2 is None:
            return None, "solver unknown", None, None
        if ok1 and ok2:
            return True, f"server pattern for incl_suffixes={extra} ({'file' if via_file else 'CLI'}): accepted names == documented set", None, None
        w = w1 if not ok1 else w2
        kind = "accepted although it has no source suffix" if not ok1 else "rejected although it ends in a source suffix"
        code = (smt.REPLAY_HEAD + "from fortls.interface import cli\nfrom fortls.langserver import LangServer\n"
                "class C:\n    def send_notification(self, *a): pass\n"
                f"srv = LangServer(C(), vars(cli('fortls').parse_args([])))\nsrv._load_config_file_dirs({{'incl_suffixes': {list(extra)!r}}})\n"
                f"name = {w!r}\nexp = name.lower().endswith(tuple('.'+s for s in {DEFAULT_SUFFIXES!r})) or any(name.endswith(e) for e in {list(extra)!r})\n"
                "got = srv.FORTRAN_SRC_EXT_REGEX.search(name) is not None\nprint(name, 'search ->', got, 'expected', exp)\nsys.exit(1 if got != exp else 0)\n")
        return False, f"server pattern, incl_suffixes={extra}: file name {w!r} {kind}", w, code
    return ob


def ob_lookalikes():
    p = create_src_file_exts_str([])
    L = rx.lang(p, "search")
    bad = [n for n in ["a.f9", "a.f90.bak", "a.ff", "a.for1", "a.f900", "af90", "a.f90 ", "a.fo", "a.f1", ".f90x"] if rx.member(n, L)]
    good = [n for n in ["a.f", "A.F90", "x.FoR", "x.fPp", ".f", "a.b.f03", "sp ace.F18"] if not rx.member(n, L)]
    return (not bad and not good), f"named look-alikes rejected, mixed-case suffixes accepted (bad={bad}, missing={good})", None, None


def ob_validate():
    names = ["a.f90", "a.F", "b.f9", "c.f90.bak", "x.inc", "y.fypp", "z.f.x", "w+c", "a.a*", "noext", "a.FOR", "a.fpp", "a.f77 ", "a.f18", "util", "a.f05x"]
    tot, bad = 0, []
    for cfg in CONFIGS:
        n, b = rx.validate(create_src_file_exts_str(list(cfg)), names, "search")
        tot += n
        bad += b
    return (not bad), f"translator vs real re.search on {tot} (config, name) pairs: disagreements {bad}", None, None


if __name__ == "__main__":
    smt.run_ob("rx.validate_translator", ob_validate)
    for cfg in CONFIGS:
        smt.run_ob("rx.suffix_language" + str(cfg), mk(cfg))
    smt.run_ob("rx.lookalikes", ob_lookalikes)
    for cfg in CONFIGS[1:]:
        smt.run_ob("rx.server_pattern.cli" + str(cfg), mk_server(cfg, False))
        smt.run_ob("rx.server_pattern.file" + str(cfg), mk_server(cfg, True))
