from lib.vrun import parts

F = "C03_total.py"


def spec(tier):
    q = tier == "quick"
    T = 280 if q else 3000
    obs = parts("T.stmt_seq", F, "stmt_seq", 16, T, path_timeout=200,
                what="all documents of <=2 (quick) / <=3 (thorough) lines from a 100-entry statement table (every construct opener/closer, declarations, PROCEDURE/IMPORT/USE/CONTAINS/IMPLICIT/visibility outside scopes, bare END, ';' and '&' lines, doc comments, truncated statements) in free form, as a preprocessed file and in fixed form: parse + check_file never raise, bounded get_line calls")
    obs += parts("T.pp_seq", F, "pp_seq", 16, T, path_timeout=200,
                 what="all preprocessed documents of <=3 lines from a 44-entry directive table (function-like macro arguments holding backslashes, directives ending in C comments, &&) incl. ill-formed directives, division/modulo by zero, huge shifts, backslash continuation at EOF, function-like macro named in #if; with and without initial definitions")
    obs += parts("T.prefix", F, "prefix", 16, T, path_timeout=200,
                 what="every prefix (cut at every column of every line) of 5 valid sample programs (thorough: + test/test_source) indexed through the real server: no failure message, index queryable")
    obs += parts("T.mutate", F, "mutate", 16, T, path_timeout=200,
                 what="every single-token insertion (18 tokens) / single-character deletion at every column of every line of the sample programs")
    obs += parts("T.growth", F, "growth", 15, T, path_timeout=200,
                 what="texts whose expansion multiplies: chains of k<=40 object-/function-like macros each using the next one w<=3 times, a file #including itself w times, two headers including each other w times, Fortran INCLUDE of the file itself: indexed within 60 s (under tracer overhead; < 1 s plain) and the outline still lists the program")
    return dict(
        obligations=obs,
        functions=["FortranFile.parse", "preprocess_file", "eval_pp_expr", "get_code_line", "parse_docs/get_docstring", "all read_* in def_tests",
                   "parse_imp_dim/char", "FortranAST.add_*/end_scope/close_file", "FortranFile.check_file", "LangServer.update_workspace_file",
                   "serve_onSave", "serve_document_symbols"],
        bounds="statement documents: <=2 lines quick / <=3 thorough over 100 statement forms x {free, preprocessed, fixed}; directive documents: <=3 lines over 34 forms x 2 definition sets; "
               "growth documents: k<=40 definitions x fan-out w<=3 x 5 shapes, 60 s wall guard per document (k from a 13-value table in quick, all 40 in thorough); "
               "prefixes/mutations: every (line, column) of 5 sample programs (quick) + repository test sources (thorough); get_line calls <= 48*nLines+32; 120 s wall guard per path",
        assumptions=["in-memory disk", "texts are chosen by solver-forked indices and then indexed concretely (bounded enumeration)"],
        outside=["arbitrary Unicode soup beyond the tables", "documents longer than the bound (the loop's progress argument is checked on these sizes, not proved)"],
    )
