from lib.vrun import Script, parts

F = "C08_pp.py"


def spec(tier):
    q = tier == "quick"
    obs = [Script("RX", ["checks/C08_rx.py"], 300, what="directive regexes as z3 regular languages over all ASCII strings: DEFINED balanced + complete, PP_REGEX recognises every spelling of each directive (incl. '#if(' '#if!'), PP_DEF, WORD covers identifiers; translator validated against the real re"),
           Script("ORACLE", ["checks/C08_cpp.py"], 600, what="reference model validated against GNU cpp on skeletons from the same generator")]
    obs += parts("S.skeleton", F, "skeleton", 16, 280 if q else 3000, path_timeout=200,
                 what="conditional skeletons (nesting<=2/3, <=6/7 lines, #if/#ifdef/#ifndef/#elif/#else/#endif + #define/#undef + declarations) x initial definitions: indexed declarations == active lines of the reference model, final macro table equal")
    obs += parts("S.pairs", F, "pairs", 16, 280 if q else 3000, path_timeout=200,
                 what="two consecutive conditional groups (<=3 and <=4 lines quick / <=5 each thorough, any heads, with #elif/#else, flat bodies) followed by a declaration: per-group state must not leak")
    obs += parts("M.obj_macro", F, "obj_macro", 5, 200 if q else 1500, what="object-like macro, body of <=2 (quick) / <=3 (thorough) tokens incl. backslash, \\\\g<1, \\\\1, quotes, $, parentheses; 4 use lines: whole-word, character-for-character substitution")
    obs += parts("M.fun_macro", F, "fun_macro", 12, 250 if q else 2500, what="function-like macro F(a,b), body <=2 (quick) / <=3 (thorough) tokens, 5x5 argument texts incl. nested parentheses, a second call-like text on the same line")
    return dict(
        obligations=obs,
        functions=["preprocess_file", "eval_pp_if (replace_defined/replace_vars/replace_ops)", "eval_pp_expr", "expand_func_macro",
                   "append_multiline_macro", "FortranFile.preprocess", "FortranFile.parse (pp_skips/pp_defines)", "FRegex.DEFINED/PP_REGEX/PP_DEF/WORD"],
        bounds="skeletons: all programs of the grammar with <=6 lines, depth<=2, 6 conditions (quick) / <=7 lines, depth<=3, 12 conditions (thorough); "
               "initial definitions: all 4 subsets of {A=1,B=2}; macro bodies: <=2 tokens (quick) / <=3 (thorough) from the special-character tables; "
               "RX: all ASCII strings",
        assumptions=["redefinition of a macro with a different value without #undef is outside (constraint violation in C; fortls keeps the first definition by design)",
                     "a macro defined without a value counts as 1 / 'True'; comparisons on such a macro are not generated",
                     "below the solver-chosen prefix (initial definitions, first two productions, token indices) runs are concrete: bounded enumeration"],
        outside=["#include resolution", "__FILE__-style builtins", "token pasting / stringification", "macro uses inside character literals",
                 "multi-line argument lists", "rescanning of expansion results"],
    )
