"""Per-property registration data for MANIFEST.json (bin/gen_manifest.py)."""

TECH = ("solver-based checking of the real code: CrossHair symbolic execution (z3) of the fortls functions "
        "+ z3 regular-language / arithmetic queries regenerated from /repo's source on every run")

CLAIMED = {
    "C01": dict(
        text="Bounded symbolic execution of LangServer.handle/run and the real sync handlers: every dispatch-table method "
             "(read from the source each run) x id presence/kind/value x handler outcome; sequences of <=3 messages; "
             "z3 decides every branch, 'Confirmed over all paths' per condition. One-step induction covers longer histories.",
        note="handlers stubbed by contract (return JSON or raise Exception); connection is a recording stub; "
             "logging/traceback stubbed; CrossHair+z3 trusted",
        ref="DESIGN.md section 5 C01",
    ),
}

NOT_APPLICABLE = {
    "C15": "quantifies over OS process scheduling of multiprocessing.Pool, pickle round-trips and PYTHONHASHSEED set "
           "order - none is a value an SMT encoding of the Python source can range over (interpreter/OS behind C "
           "boundaries); the encodable residue is a k! enumeration where the solver decides nothing",
}
PENDING = "check under construction in this session (solver harness not yet landed); see DESIGN.md section 5"
