"""Per-property registration data for MANIFEST.json (bin/gen_manifest.py)."""

TECH = ("solver-based checking of the real code: CrossHair symbolic execution (z3) of the fortls functions "
        "+ z3 regular-language / arithmetic queries regenerated from /repo's source on every run")

CLAIMED = {
    "C01": dict(
        text="Bounded symbolic execution of LangServer.handle/run and the real sync handlers: every dispatch-table method "
             "(read from the source each run) x id presence/kind/value x handler outcome; sequences of <=3 messages; "
             "z3 decides every branch, 'Confirmed over all paths' per condition. One-step induction covers longer histories. (B) a real session at the byte level: real run(), real handlers incl. initialize, real connection over byte buffers, a second initialize at any position, non-ASCII method names; an independent byte-level frame reader finds exactly one decodable response per request id, in order.",
        note="handlers stubbed by contract (return JSON or raise Exception); connection is a recording stub; "
             "logging/traceback stubbed; CrossHair+z3 trusted",
        ref="DESIGN.md section 5 C01",
    ),
    "C02": dict(
        text="Bounded symbolic execution of FortranFile.apply_change / splitlines / serve_onChange against the LSP text-edit "
             "reference model: every range inside 3 (quick) / 6 (thorough) document shapes x inserted texts of <=3 segments "
             "joined by LF|CR|CRLF, whole-document sync, a preprocessed file whose expanded copy differs, and splitlines on a "
             "free symbolic string (any characters, len<=4). One edit from an arbitrary valid buffer + buffer invariant gives "
             "sequences by induction; 2-edit chains explicitly in thorough. (R) didOpen, unsaved single-line edits, [didClose,] didOpen with the disk unchanged: text and outline are the disk's again.",
        note="documents <=3 lines x <=2 chars; one representative non-break character except in the free-string obligation; "
             "update_workspace_file stubbed; BMP characters (UTF-16 offsets == str indices); CrossHair+z3 trusted",
        ref="DESIGN.md section 5 C02",
    ),
    "C16": dict(
        text="Bounded symbolic execution of the framing code: every writer with a FREE symbolic body string (any Unicode, "
             "len<=4) under the json.dumps contract selected by the call site; the reader on two back-to-back frames with "
             "token bodies (1-4 byte chars, LF/CRLF, look-alike header) x 4 header layouts x extra header; truncated streams; "
             "real ReadWriter/BytesIO incl. multi-byte characters straddling 2^k byte offsets; URI round trip on special-character tokens.",
        note="json.dumps/loads stubbed by contract (ensure_ascii=True => ASCII); BufferedReader.read(n) contract assumed, so OS-level "
             "chunking is stated not explored; POSIX paths; CrossHair+z3 trusted",
        ref="DESIGN.md section 5 C16",
    ),
    "C19": dict(
        text="Bounded symbolic execution of cli()/LangServer.__init__/_load_config_file and its loaders for every option of "
             "the parser (inventory regenerated from the parser object each run): symbolic presence in the file, CLI value and "
             "file value (free bool/int; 3-value tables for str/list/dict), pairs of options, and faulty files (parser error, "
             "7 non-object top levels, wrongly typed values alone or between valid ones). Oracle: file wins, absent keeps CLI, "
             "faults => message + untouched options. (E) the observable effect of an option (hover text, indexed declarations, diagnostics; after a re-parse too) is the same through both channels and differs from the default.",
        note="json5.load, os.path.isfile and open stubbed; load_intrinsics cached; CLI side modelled as the parser's default "
             "settings dict with the option overridden, passed through the real __init__; CrossHair+z3 trusted",
        ref="DESIGN.md section 5 C19",
    ),
    "C20": dict(
        text="Every functional graph on N<=3 (quick) / N<=4 (thorough) nodes for 13 cycle shapes (USE, EXTENDS in one file and "
             "across files, submodule ancestry, pointer links, ASSOCIATE, procedure pointers, mixed pointers, type-bound/GENERIC bindings, "
             "dummy-procedure interfaces, INCLUDE, INCLUDE with outside includers, INCLUDE inside included procedures): the successor indices are symbolic ints forked by the solver (CrossHair), the graph is rendered to "
             "source and run through the real server (indexed by didOpen in 4 opening orders and by the real workspace_init in up to 12/24 "
             "enumeration orders -> parse/link/diagnose, documentSymbol, all 9 positional "
             "requests at both ends of every identifier) under a wall-clock guard; any error response, error message, hang "
             "or out-of-document range is a counterexample. The indexed run itself is concrete per path (NoTracing): the "
             "solver enumerates the bounded graph space, it does not reason about the parser. (S, traced) the real resolve_link / "
             "resolve_inherit / get_ancestors / get_overridden on object graphs with symbolic successor indices.",
        note="disk replaced by an in-memory table; one source spelling per link kind; default recursion limit; 20 s budget per graph",
        ref="DESIGN.md section 5 C20",
    ),
    "C09": dict(
        text="(P3/P4) the (document,line) pair is a symbolic index forked by the solver; for it every column 0..len+1 x 9 positional "
             "methods go through the real server over an in-memory workspace (construct-rich, broken, preprocessed, top-level, "
             "fixed-form, tiny documents; one line per bundled intrinsic/keyword; test/test_source in thorough): protocol-shaped "
             "result or null, never an error, every location/edit/diagnostic range inside its document. (P2) genuinely symbolic: "
             "get_line_prefix / get_paren_level / find_paren_match on free short strings, the range templates for all non-negative ints. Sample documents extended by 13 shapes on which the pinned tree had internal errors.",
        note="sweep paths run concretely (NoTracing): enumeration of a bounded (document,line) space by solver forking, not reasoning "
             "about the handlers; sample documents only; in-memory disk; CrossHair+z3 trusted",
        ref="DESIGN.md section 5 C09",
    ),
    "C08": dict(
        text="(RX, unbounded) the directive regexes as z3 regular languages over all ASCII strings: DEFINED balanced and complete, "
             "PP_REGEX recognises every spelling of every conditional directive, PP_DEF, WORD covers identifiers. (Skeletons) every "
             "program of a conditional grammar up to 6/7 lines and nesting 2/3 x all initial-definition subsets, and every pair of "
             "consecutive groups: declarations indexed == active lines of a reference model, final macro table equal. (Macros) object- "
             "and function-like macros with special-character bodies and nested-parenthesis arguments substituted character for "
             "character. The reference model is validated against GNU cpp on the same generator on every run.",
        note="initial definitions / leading productions / token indices are symbolic and forked by the solver, the remaining productions "
             "are enumerated concretely inside each path (bounded enumeration); redefinition without #undef excluded; RX limited to ASCII",
        ref="DESIGN.md section 5 C08", rx=True,
    ),
    "C03": dict(
        text="Totality and bounded work of indexing over bounded families of texts selected by solver-forked indices: all documents "
             "of <=2/3 lines over 100 statement forms in free, preprocessed and fixed form; all <=3-line documents over 34 "
             "(partly ill-formed) directive forms; every prefix of valid sample programs cut at every column, through the real "
             "server; every single-token insertion / character deletion at every column. Assertion: no exception, no failure "
             "message, index queryable, get_line calls linear in the line count, wall-clock guard. Multiplying texts (macro chains of "
             "k<=40 definitions with fan-out w<=3, self- and mutual #include, self-INCLUDE) index within the budget.",
        note="texts are indexed concretely once chosen (bounded enumeration through solver forking); tables instead of arbitrary "
             "characters; in-memory disk",
        ref="DESIGN.md section 5 C03",
    ),
    "C17": dict(
        text="Hostile-token conditions, macro values, initial definitions and include/use names (<=2/3 tokens: import expressions, "
             "attribute access, calls, full-width identifiers, lambda, open(), exec/eval) in 6 document templates, through "
             "preprocess_file/parse and through the real server, with monitors on eval/exec/compile/__import__/open(write)/os.*/"
             "subprocess.*/shutil.*: no monitor fires, and any text reaching eval/compile must be in the safe expression language "
             "(z3 regular-language membership). Plus an AST inventory of every executing/writing call site in the package, "
             "regenerated from /repo each run, against the list of intended side effects.",
        note="token index forked by the solver, documents then indexed concretely (bounded enumeration); monitors are Python-level "
             "(C extensions trusted); auto-update and debug log off; the inventory is a syntactic scan",
        ref="DESIGN.md section 5 C17", rx=True,
    ),
    "C18": dict(
        text="(RX, unbounded) the suffix regex built by create_src_file_exts_str(S) as a z3 regular language equals, over ALL printable "
             "ASCII file names, the set of names ending in a documented default suffix (any case) or a configured suffix, for 6 "
             "configurations incl. regex metacharacters and look-alikes. (Tree) _get_source_files/_add_source_dirs over a symbolic "
             "in-memory tree x source_dirs x exclusion-path x suffix configurations: indexed set == prescribed set. (PATHS, script on a real temporary tree) resolve_globs == an independent expansion on 25 patterns incl. hidden names; start-up file list for 10 settings through both channels. RX also on the pattern the server builds.",
        note="listdir/walk/isfile replaced by an in-memory tree; exclusion is exact path match after glob resolution; glob expansion "
             "(pathlib on the real FS) not covered; tree contents are solver-forked masks, configurations below them enumerated concretely",
        ref="DESIGN.md section 5 C18", rx=True,
    ),
    "C04": dict(
        text="(S, symbolic) add_scope/end_scope/close_file/get_inner_scope with free symbolic line numbers (unbounded ints): start/end "
             "lines, nesting, innermost scope for every query line. (RX, unbounded) END regexes as regular languages: every END spelling "
             "recognised, each construct's END regex accepts its own keyword and no other's. (G) generated programs (11x12 construct "
             "nestings incl. shared-label DO and a labelled END DO whose label is reused in the next procedure, type/binding, 3 interface forms, internal procedures, 5 second-unit kinds, 4 END variants, "
             "gaps): the outline has every unit and direct procedure/type/named interface exactly once with kind, container, start and "
             "END lines; workspace/symbol for every substring query in 3 letter cases returns exactly the matching units and module members, sorted; queries made of regex metacharacters.",
        note="G programs are enumerated concretely below solver-chosen (construct, END variant, gap / query) indices; oracle = the generator's "
             "own stack machine; additional symbols fortls emits are not judged; in-memory disk",
        ref="DESIGN.md section 5 C04", rx=True,
    ),
    "C13": dict(
        text="(RX, unbounded) every pattern of FRegex and every literal re.compile in the package as a z3 regular language over all ASCII "
             "strings: letter case never matters; each statement pattern accepts every spacing of its reference statement language; "
             "comment / continuation-start / preprocessor line languages are disjoint and complete; splitlines on a free symbolic string. "
             "(L) generated programs under every single positional transformation (blank line, comment line, trailing comment, ';' join) at "
             "every statement x 4 case modes x LF|CRLF|CR x trailing blanks, and every statement split at every token boundary (with/without "
             "leading '&', with blank / whitespace-only / comment lines between the parts): scopes (kind, name, parent, start and END line "
             "under that layout), declarations, resolved bindings (type-bound links, EXTENDS, generic members, submodule ancestor) and error "
             "diagnostics equal the generator's model. Name positions through continuation lines (find_word_in_code_line), three-piece continuations, six-blank indentation.",
        note="layouts are enumerated concretely below solver-chosen indices; programs come from one structural generator; ASCII only",
        ref="DESIGN.md section 5 C13", rx=True,
    ),
    "C14": dict(
        text="(RX, unbounded) FIXED_COMMENT / FIXED_CONT / LINE_LABEL equal their reference line languages; the per-line free-form "
             "evidence used by detect_fixed_format never occurs on a fixed-form statement line. (X) the generated programs rendered in "
             "fixed form - 6 comment characters before every statement, blank lines, column-6 continuation (5 markers) at every token "
             "boundary with comment/blank lines in between, labelled and shared-label DO termination - are classified fixed and indexed "
             "like the model; free-form renderings (indent 0..4, 4 case modes) and 8 declaration-free programs from column 1 are never "
             "classified fixed. Three-piece fixed-form continuations with comment / blank lines in either gap; free-form evidence reduced to a single '&' in four spellings.",
        note="texts valid in both source forms are outside (every column-1 line starts with c/d/!/*); a fixed-form comment line that "
             "begins with a declaration keyword (CHARACTER/COMPLEX/CLASS/DOUBLE...) is a recorded known finding; enumeration below solver-chosen indices",
        ref="DESIGN.md section 5 C14", rx=True,
    ),
    "C05": dict(
        text="(S, symbolic) find_in_scope/get_use_tree traced by CrossHair on object graphs built with the real constructors: visibility "
             "codes, default visibility, ONLY/rename/shadowing/re-export flags and the query name are symbolic ints/bools; result == "
             "Fortran rule on every path. (W) three-file worlds over all combinations of accessibility forms, default PRIVATE, USE with "
             "ONLY/rename, re-export, local and host declarations: every use site of every standard-conforming world lands exactly on the "
             "declaration (file, line, column) a reference resolver written from the Fortran rules binds it to, or on nothing. (T) 45 '%' "
             "chain sites incl. two-level EXTENDS inheritance, nested types, pointer components, array elements. Plus a 3-level EXTENDS chain over three files in all 24 index orders (real workspace_init and didOpen) and further USE forms (two renaming USE statements, accessibility statements in another letter case).",
        note="known finding C05-reexport-private-default is excluded by its exact predicate; W/T run concretely below solver-chosen parameters; "
             "INCLUDE/IMPORT/submodule association outside",
        ref="DESIGN.md section 5 C05",
    ),
    "C12": dict(
        text="Completion through the real server over the C05 worlds (accessibility forms x USE plain/ONLY/rename x re-export x default "
             "PRIVATE x local/host declarations x a second USE of the same module): at every use site and for every non-empty prefix of the "
             "identifier the user-declared labels offered are exactly the names a reference resolver (Fortran rules) makes accessible there "
             "with that prefix; CALL context: callable only. 21 context lines (CALL also after IF (cond)): member chains offer exactly own + inherited components, USE "
             "offers modules only, USE..ONLY public members only, TYPE(/CLASS( derived types only. A submodule of a submodule sees its own, "
             "its parent's and the ancestor module's entities and not a sibling's.",
        note="world parameters are symbolic ints forked by the solver, the worlds below them enumerated concretely; intrinsic/keyword items "
             "ignored; known finding C05-reexport-private-default excluded by its predicate",
        ref="DESIGN.md section 5 C12",
    ),
    "C06": dict(
        text="A nine-file world written with occurrence markers (the generator knows which entity each identifier occurrence outside "
             "comments/literals is bound to: declarations, dummy lists, i=i+1, x$y, shadowing dummies, same spelling in other modules incl. a "
             "default-PRIVATE one, a type component, literals containing '!' or the other quote, BOZ literals, a module reached twice, interface-block procedures "
             "called from another file, a fixed-form file with comment lines / trailing comments / a continued statement): from every occurrence of every entity, with the "
             "cursor at start/middle/end, references, documentHighlight and rename answer exactly that entity's occurrences with exact spans, and "
             "applying the rename edits changes exactly those identifiers. Plus the occurrence regex (read from the current source) on all token "
             "lines of <=4/5 tokens: hits == whole-word occurrences.",
        note="(occurrence, cursor, method) indices are symbolic and forked by the solver; each request then runs concretely; known finding "
             "C06-use-rename-clause and C06-specific-in-named-generic are shown by their witnesses and kept out of the main world",
        ref="DESIGN.md section 5 C06",
    ),
    "C07": dict(
        text="(S, symbolic) Scope.check_definitions / check_use traced by CrossHair with free symbolic line numbers: 'procedure before "
             "CONTAINS' and 'USE after IMPLICIT' are reported exactly when the line order says so, with severity and 0-based line. (D) a valid "
             "two-module base program (incl. the constructor-overload idiom, deferred bindings, intrinsic modules) publishes no error; 34 seeded "
             "variants covering the 15 documented defect classes at several positions x 0..3 blank lines above: the real server publishes the "
             "class's message with its severity on the offending line and no error of another class. Plus the variants under re-layout, repeated saves (same list every time) and a 3-level EXTENDS chain in all index orders (deferred binding reported).",
        note="one defect at a time in one base program; variant / offset indices are solver-forked, each run concrete; C04/C13 assert "
             "'no error diagnostic' on all their generated valid programs",
        ref="DESIGN.md section 5 C07",
    ),
    "C11": dict(
        text="About 16 000 declarations generated from a grammar (8 type keywords x kind/len selectors incl. nested parentheses x module "
             "variable / dummy / local x attribute subsets in both orders x entity dimension / character length / PARAMETER value x 6 "
             "documentation placements) are indexed by the real server; hover must restate type+selector, the attribute set with arguments, "
             "name, value and exactly that entity's documentation while the neighbours keep theirs. Signature help at 20 cursor positions "
             "(positional, keywords in any order, nested parentheses): parameters in declared order with their declarations, right active parameter. Plus multi-entity statements (=> target, bounds and lengths given per entity) and calls holding comparisons, literals with commas, lines starting with 'end'.",
        note="(type, selector, context) / (call, position) indices are symbolic and forked by the solver, the rest enumerated concretely; "
             "comparison is case- and blank-insensitive; attributes outside KEYWORD_LIST and multi-entity declarations outside",
        ref="DESIGN.md section 5 C11",
    ),
    "C10": dict(
        text="(G, symbolic) the link generation counter: the real serve_onSave and link resolution run traced from link_version = v with "
             "an extending type of another file last resolved at version w; v and w are symbolic ints over the range the real counter can "
             "take (probed from the code); the solver found the wrap-around pre-state (999, 0) on the pinned code and a concrete history of "
             "~1000 edits confirmed it before it was reported. (H) a 7-file workspace (3-level EXTENDS across files, USE, type-bound link, "
             "submodule, two INCLUDEs) under all histories of 2 (quick) / 3 (thorough) events out of 31 (query, unsaved edits to other versions "
             "incl. a ranged single-line edit, saves, close, delete, re-create) and all final versions, ending with one save of exactly the files that changed: completion "
             "after three '%' sites, 7 definitions and hovers, references, diagnostics, document and workspace symbols equal a fresh server's - the fresh server being the real workspace_init (pool and directory "
             "walk replaced by stand-ins). (I) workspace_init over all 7! enumeration orders gives one dump.",
        note="in-memory disk; H histories are enumerated concretely below the solver-chosen first event / final version; G re-parses the saved "
             "file untraced; histories longer than 3 events only through G; macro leakage across files excluded by the property",
        ref="DESIGN.md section 5 C10",
    ),
}

NOT_APPLICABLE = {
    "C15": "quantifies over OS process scheduling of multiprocessing.Pool, pickle round-trips and PYTHONHASHSEED set "
           "order - none is a value an SMT encoding of the Python source can range over (interpreter/OS behind C "
           "boundaries); the encodable residue is a k! enumeration where the solver decides nothing",
}
PENDING = "check under construction in this session (solver harness not yet landed); see DESIGN.md section 5"
