from lib.vrun import XH, parts

F = "C05_resolve.py"


def spec(tier):
    q = tier == "quick"
    T = 280 if q else 3000
    obs = parts("S.resolver", F, "resolver", 12, 280 if q else 1500, what="find_in_scope/get_use_tree TRACED symbolically on a graph built with the real constructors: visibility codes of two entities, module default visibility, ONLY / rename / local shadowing / re-export (plain or ONLY) flags and the query name are symbolic; result == Fortran rule")
    obs += parts("W.worlds", F, "worlds", 16, T, path_timeout=250,
                 what="three-file worlds: accessibility of a (attribute / statement / default, 5 forms) x how m2 uses m1 (plain, ONLY, rename) x how main uses m1|m2 (6 forms) x default PRIVATE in m1/m2 x explicit re-export x local / host declarations (x second USE, accessibility of b and c in thorough); every use site of every standard-conforming world lands on the declaration line and column the reference resolver binds it to, or on nothing")
    obs += [XH("T.chains", F, "chains", 200 if q else 600, what="15 '%' chains x 3 statement forms: own, inherited (1 and 2 EXTENDS levels), nested-type, pointer-component and array-element components")]
    obs += parts("X.inherit_orders", "C05_resolve.py", "inherit_orders", 8, 250 if tier == "quick" else 900,
                 what="three-level EXTENDS chain (abstract base with a deferred binding, abstract intermediate, concrete leaf) in three files plus a user, indexed in all 24 file orders by the real workspace_init and by opening the files one by one: components / bindings of every level resolve through obj%, completion after obj% offers exactly all of them, the leaf's unimplemented deferred binding is reported")
    obs += [XH("X.forms", F, "forms", 200 if tier == "quick" else 600,
               what="further USE-association forms: two renaming USE statements of one module in either order (all renamed and plain names resolve), PUBLIC/PRIVATE statements spelled in another letter case than the declaration (the private entity is not reachable, the host's is found); files indexed in both orders")]
    return dict(
        obligations=obs,
        functions=["find_in_scope", "get_use_tree", "climb_type_tree", "Variable.get_type_obj", "Type.resolve_inherit", "FortranAST.get_inner_scope",
                   "close_file (PUBLIC/PRIVATE lists)", "read_use_stmt", "get_definition", "serve_definition", "_create_ref_link"],
        bounds="S: 3 names, visibility codes in {-1,0,1}, 7 boolean flags; W: 5 x 4 x 6 x 2 x 2 x 2 x 2 x 2 x 4 world parameters (x 3 x 2 x 2 in thorough), about 25 use sites each; T: 45 chain sites",
        assumptions=["oracle = reference resolver written from the Fortran rules (lib/world.py)", "worlds in which a name would be ambiguous or an ONLY list names an inaccessible entity are excluded (property: standard-conforming programs)",
                     "W/T run concretely below the solver-chosen world parameters"],
        outside=["INCLUDE association", "submodule host association", "generic resolution", "names brought in by IMPORT"],
    )
