from lib.vrun import XH, parts

F = "C09_positions.py"


def spec(tier):
    q = tier == "quick"
    obs = parts("P3.sweep", F, "sweep", 16, 280 if q else 3000, path_timeout=120,
                what="(document,line) symbolic index; every column 0..len+1 x 9 positional methods on the real server over an in-memory workspace: construct-rich module/submodule/program, broken text, preprocessed file, top-level statements, fixed form, tiny/empty documents, one line per bundled intrinsic/keyword/statement (quick) + every file of test/test_source (thorough); result shape + every location inside its target document")
    obs += parts("P3.opt_sweep", F, "opt_sweep", 16, 280 if q else 3000, path_timeout=120,
                 what="the same sweep on four documents under 6 option sets (diagnostics disabled + code actions, name-only/no-prefix completion, hover signature + lowercase intrinsics + sorted keywords, skip members + no snippets, line-length limits): results JSON-serialisable, protocol-shaped, ranges inside the document")
    obs += [XH("P3.diags", F, "diags", 120 if q else 900, what="published diagnostics (incl. relatedInformation) and documentSymbol ranges inside the document, per document"),
            XH("P2.prefix_free", F, "prefix_free", 150 if q else 900, what="get_line_prefix on FREE symbolic strings (len<=3 quick / <=4 thorough, prefix line len<=1) and a free column"),
            XH("P2.paren_free", F, "paren_free", 150 if q else 900, what="get_paren_level/find_paren_match on a FREE symbolic string len<=3 quick / <=4 thorough: sections inside the line"),
            XH("P2.ranges_int", F, "ranges_int", 60, what="range_json/uri_json/change_json/diagnostic_json for ALL non-negative ints: emitted range == requested (single-line, or multi-line ending at column>0)")]
    return dict(
        obligations=obs,
        functions=["serve_hover", "serve_definition", "serve_implementation", "serve_references", "serve_rename", "serve_signature",
                   "serve_autocomplete", "serve_codeActions", "get_definition", "_create_ref_link", "get_line_prefix", "get_var_stack",
                   "get_paren_level", "expand_name", "get_code_line", "find_word_in_code_line", "Diagnostic.build", "range_json", "uri_json",
                   "change_json", "diagnostic_json", "Intrinsic.*"],
        bounds="documents: 13 synthetic (quick) + test/test_source (thorough); all lines 0..n (one past the end), all columns 0..len+1, "
               "9 methods; free strings len<=3 (quick) / <=4 (thorough) for the cursor helpers; unbounded non-negative ints for the range templates",
        assumptions=["disk replaced by an in-memory table", "the sweep runs concretely per path (NoTracing): the solver enumerates (document,line)"],
        outside=["documents other than the samples for P3/P4", "multi-line ranges that end at column 0 with a non-zero start column (no caller produces them; range_json would clamp)"],
    )
