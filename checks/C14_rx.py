"""C14 RX obligations: fixed-form line languages and the per-line evidence used by detect_fixed_format."""
import sys

sys.path.insert(0, "/verif")
from lib import rx, smt
from lib.rx import BL, BL1, alt, cat, chars, cls, lit, notchars, plus, star

from fortls.constants import FRegex

ANY = rx.ASCII_STAR
DIG = cls(range(48, 58))
LABELCOL = alt(lit(" "), DIG)
FIVE = cat(*[LABELCOL] * 5)
# a fixed-form statement (initial or continuation) line: columns 1-5 blank/digits, then anything; or a shorter line
FIXED_STMT = alt(cat(FIVE, ANY), rx.z3.Loop(LABELCOL, 0, 4))
FIXED_COMMENT_LINE = cat(chars("!cCdD*"), ANY)


def eq(name, L, R, what):
    def ob():
        a, w1, _ = rx.subset(L, R)
        b, w2, _ = rx.subset(R, L)
        if a is None or b is None:
            return None, "solver unknown", None, None
        ok = a and b
        w = w1 if not a else w2
        return ok, (what if ok else f"{name}: languages differ, witness {w!r}"), w, None
    return ob


def ob_free_evidence():
    L = rx.lang(FRegex.FREE_FORMAT_TEST, "match")
    a, w1, _ = rx.disjoint(L, alt(FIXED_STMT, FIXED_COMMENT_LINE))
    # a declaration keyword starting in columns 1-5 never occurs on a fixed-form STATEMENT line (a keyword starting exactly in
    # column 6 is also taken as free-form evidence by detect_fixed_format: it could only be a continuation line whose marker
    # is the keyword's first letter - stated, not claimed)
    early = [rx.z3.Intersect(rx.lang(FRegex.VAR, "match"), cat(rx.z3.Loop(lit(" "), 0, 4), notchars(" "), ANY))]
    b, w2, _ = rx.disjoint(early[0], FIXED_STMT)
    ok = a and b
    return ok, (f"FREE_FORMAT_TEST and an early declaration keyword never occur on a fixed-form statement line" if ok else f"free-form evidence on a fixed-form line: {w1!r} {w2!r}"), (w1 or w2), None


def ob_free_evidence_comment_lines():
    """free-form evidence on a fixed-form COMMENT line: nothing beyond the recorded known finding"""
    from lib.hx import kf_active
    from lib.rx import ci

    ev = alt(rx.lang(FRegex.FREE_FORMAT_TEST, "match"),
             rx.z3.Intersect(rx.lang(FRegex.VAR, "match"), cat(rx.z3.Loop(lit(" "), 0, 5), notchars(" "), ANY)),
             cat(cls([c for c in range(128) if chr(c).isalpha() and chr(c) not in "cCdD"]), ANY))
    on_comment = rx.z3.Intersect(ev, FIXED_COMMENT_LINE)
    known = cat(alt(ci("character"), ci("complex"), ci("class"), cat(ci("double"), BL, alt(ci("precision"), ci("complex")))), ANY)
    allowed = known if kf_active("C14-fixed-comment-keyword") else rx.EMPTY
    ok, w, _ = rx.subset(on_comment, allowed)
    code = None
    if w:
        code = smt.REPLAY_HEAD + f"from fortls.helper_functions import detect_fixed_format\nr = detect_fixed_format([{w!r}, '      END'])\nprint(r)\nsys.exit(0 if r else 1)\n"
    return ok, ("free-form evidence on fixed-form comment lines is confined to the known finding (column-1 declaration keywords starting with C/D)"
                if ok else f"a fixed-form comment line counts as free-form evidence: {w!r}"), w, code


def ob_validate():
    lines = smt.corpus(200) + ["C comment", "     & cont", "     1x", "  10 continue", "      end", "*", "d debug"]
    tot, bad = 0, []
    for n in ("FIXED_COMMENT", "FIXED_CONT", "LINE_LABEL", "FREE_FORMAT_TEST", "FIXED_DOC", "FIXED_OPENMP", "VAR"):
        k, b = rx.validate(getattr(FRegex, n), lines, "match")
        tot += k
        bad += [(n, x) for x in b]
    return (not bad), f"translator vs real re on {tot} pairs: {bad[:3]}", None, None


if __name__ == "__main__":
    smt.run_ob("rx.validate_translator", ob_validate)
    smt.run_ob("rx.FIXED_COMMENT", eq("FIXED_COMMENT", rx.lang(FRegex.FIXED_COMMENT, "match"), FIXED_COMMENT_LINE,
                                      "comment lines = lines with C, c, D, d, * or ! in column 1"))
    smt.run_ob("rx.FIXED_CONT", eq("FIXED_CONT", rx.lang(FRegex.FIXED_CONT, "match"), cat(lit("     "), notchars(" \t\n\r\x0b\x0c\x1c\x1d\x1e\x1f"), ANY),
                                   "continuation lines = 5 blanks + a non-blank character in column 6 ('0' in column 6 is also taken as continuation: stated)"))
    smt.run_ob("rx.LINE_LABEL", eq("LINE_LABEL", rx.lang(FRegex.LINE_LABEL, "match"), cat(BL, plus(DIG), BL1, ANY),
                                   "statement labels = optional blanks, digits, at least one blank"))
    smt.run_ob("rx.free_evidence_vs_fixed_lines", ob_free_evidence)
    smt.run_ob("rx.free_evidence_vs_fixed_comment_lines", ob_free_evidence_comment_lines)
