from lib.vrun import parts

F = "C06_refs.py"


def spec(tier):
    q = tier == "quick"
    T = 280 if q else 2500
    obs = parts("R.refs", F, "refs", 16, T, path_timeout=250,
                what="nine-file world (incl. a default-PRIVATE module used first with the same spellings) written with occurrence markers (declarations, dummy-argument lists, i=i+1, total*i - total, x$y, a dummy argument and an internal-procedure dummy shadowing module variables, same spelling in another module, type component with the spelling of a module variable, names inside comments / character literals / literals containing '!' or the other quote): from EVERY occurrence of EVERY entity (cursor at start / middle / end) references, documentHighlight and rename answer exactly the entity's occurrences with exact identifier spans; applying the rename edits changes exactly those identifiers")
    obs += parts("R.matcher", F, "matcher", 16, T, path_timeout=250,
                 what="the occurrence regex built by get_all_references (read from the current source) on all lines of <=4 (quick) / <=5 (thorough) tokens from a 16-token table (name, other case, prefixes/suffixes, $ variants, single-character operators): hits == whole-word occurrences with exact spans")
    obs += parts("R.refs_worlds", F, "refs_worlds", 16, T, path_timeout=250,
                 what="the USE/accessibility worlds of lib/world.py (5 accessibility forms x 4 x 6 USE forms symbolic; default PRIVATE, re-export, target module, local/host declarations, second USE enumerated: ~1 900 conforming worlds quick, ~9 400 thorough) x references / documentHighlight: from the declaration of every entity the answer contains the declaration and every use site the reference resolver binds to it, no use site bound to anything else, and is the same from every such use site")
    return dict(
        obligations=obs,
        functions=["serve_references", "serve_rename", "get_all_references", "get_definition", "strip_comment", "find_comment_start", "literal_spans",
                   "expand_name", "get_line_prefix", "change_json", "uri_json"],
        bounds="125 marked occurrences of 30 entities x 3 cursor positions x 3 methods; matcher: 16^4 (quick) / 16^5 (thorough) token lines",
        assumptions=["occurrence oracle = the markers of the source templates (binding decided by hand from the Fortran rules)",
                     "known finding C06-use-rename-clause (renamed USE association) is kept out of the main world and shown by its witness",
                     "requests run concretely per solver-chosen (occurrence, cursor, method)"],
        outside=["type-bound procedure override chains", "generic interfaces", "submodule procedures", "INCLUDE files"],
    )
