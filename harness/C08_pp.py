"""C08 - preprocessor regions and macro table match a reference C preprocessor.

Real code executed: preprocess_file (conditional state machine, eval_pp_if with its
rewriting steps and eval_pp_expr, #define/#undef, continuation, expand_func_macro,
substitution loop) and FortranFile.parse on the preprocessed text (pp_skips /
pp_defines -> which declarations are indexed).

Oracle: a reference model of conditional inclusion + macro table (ref_pp below,
validated against GNU cpp by checks/C08_cpp.py on the same generator), and the
textual substitution rule for macro uses.

Symbolic: the initial definitions (A, B defined or not: bools), the first two
productions of the conditional skeleton, macro body tokens and use forms - all
forked by the solver.  Below the symbolic prefix the remaining productions of the
grammar are enumerated exhaustively inside the path (concrete runs, NoTracing):
bounded enumeration, stated as such.
"""
import os

from crosshair.tracers import NoTracing

from lib.hx import conc, npart, part, silence, tick, tock

silence()

from fortls.parsers.internal.parser import FortranFile, preprocess_file  # noqa: E402

PART, NPART = part(), npart()
THOROUGH = os.environ.get("VERIF_TIER", "quick") == "thorough"
MAXL = 7 if THOROUGH else 6   # lines of the skeleton
MAXD = 3 if THOROUGH else 2   # nesting depth
ON, FN = (3, 3) if THOROUGH else (2, 2)  # macro body lengths (tokens)


def V(d, n):
    return d.get(n, 0)


# (text, reference truth as a function of the macro table {name: int})
EXPRS = [
    ("defined(A)", lambda d: "A" in d),
    ("defined B", lambda d: "B" in d),
    ("!defined(A)", lambda d: "A" not in d),
    ("defined(A) && defined(B)", lambda d: "A" in d and "B" in d),
    ("defined(A) || defined(B)", lambda d: "A" in d or "B" in d),
    ("(defined A || defined B)", lambda d: "A" in d or "B" in d),
    ("!(defined(A) && !defined(B))", lambda d: not ("A" in d and "B" not in d)),
    ("A == 1", lambda d: V(d, "A") == 1),
    ("B > 0 && defined(A)", lambda d: V(d, "B") > 0 and "A" in d),
    ("(A > 0 || B != 0) && !defined(C)", lambda d: (V(d, "A") > 0 or V(d, "B") != 0) and "C" not in d),
    ("A", lambda d: V(d, "A") != 0),
    ("! B", lambda d: V(d, "B") == 0),
    ("defined(A) /* why */ && 1 // really", lambda d: "A" in d),
    ("(0 - 7) / 2 == -3 && (0 - 7) % 3 == -1 && B - 7 / 2 >= B - 3", lambda d: True),
]
if not THOROUGH:
    EXPRS = [EXPRS[i] for i in (0, 1, 3, 5, 6, 7, 9, 12, 13)]
HEADS = [("ifdef", "A"), ("ifndef", "B")] + [("if", i) for i in range(len(EXPRS))]
SIMPLE = [("code",), ("def", "B", "1"), ("def", "A", "0"), ("undef", "A"), ("def", "C", None)]
ELIFS = list(range(len(EXPRS)))[:: 2 if not THOROUGH else 1]


def gen_items(budget, depth, first=None):
    """all item sequences using <= budget lines; `first`, if given, fixes the first item's production index
    in the list SIMPLE + HEADS (used for the solver-chosen prefix)"""
    yield []
    if budget <= 0:
        return
    prods = list(range(len(SIMPLE) + (len(HEADS) if depth < MAXD and budget >= 2 else 0)))
    if first is not None:
        prods = [first] if first in prods else []
    for p in prods:
        if p < len(SIMPLE):
            for rest in gen_items(budget - 1, depth):
                yield [SIMPLE[p]] + rest
        else:
            head = HEADS[p - len(SIMPLE)]
            for cond, used in gen_cond(head, budget, depth):
                for rest in gen_items(budget - used, depth):
                    yield [cond] + rest


def gen_cond(head, budget, depth):
    """conditional groups with this head using <= budget lines -> (("cond", head, body, elifs, else_body), lines)"""
    # head + endif = 2 lines
    for body in gen_items(budget - 2, depth + 1):
        nb = nlines(body)
        left = budget - 2 - nb
        # no elif / no else
        yield ("cond", head, body, [], None), 2 + nb
        if left >= 1:
            for eb in gen_items(left - 1, depth + 1):
                yield ("cond", head, body, [], eb), 3 + nb + nlines(eb)
            for e in ELIFS:
                for elb in gen_items(left - 1, depth + 1):
                    n2 = nlines(elb)
                    yield ("cond", head, body, [(e, elb)], None), 3 + nb + n2
                    if left - 1 - n2 >= 1:
                        for eb in gen_items(left - 2 - n2, depth + 1):
                            yield ("cond", head, body, [(e, elb)], eb), 4 + nb + n2 + nlines(eb)


def nlines(items):
    n = 0
    for it in items:
        if it[0] == "cond":
            n += 2 + nlines(it[2]) + sum(1 + nlines(b) for _, b in it[3]) + (0 if it[4] is None else 1 + nlines(it[4]))
        else:
            n += 1
    return n


def render(items, out=None, ctr=None):
    """-> list of source lines; code lines are declarations `integer :: v<k>`"""
    if out is None:
        out, ctr = [], [0]
    for it in items:
        k = it[0]
        if k == "code":
            ctr[0] += 1
            out.append(f"integer :: v{ctr[0]}")
        elif k == "def":
            out.append(f"#define {it[1]}" + ("" if it[2] is None else f" {it[2]}"))
        elif k == "undef":
            out.append(f"#undef {it[1]}")
        else:
            _, head, body, elifs, eb = it
            if head[0] == "if":
                out.append(f"#if {EXPRS[head[1]][0]}")
            else:
                out.append(f"#{head[0]} {head[1]}")
            render(body, out, ctr)
            for e, b in elifs:
                out.append(f"#elif {EXPRS[e][0]}")
                render(b, out, ctr)
            if eb is not None:
                out.append("#else")
                render(eb, out, ctr)
            out.append("#endif")
    return out


class Redefinition(Exception):
    pass


def ref_pp(items, defs, active=True, out=None):
    """reference model: -> list of active code-line indices (in render order) and the final table.
    defs: {name: int}; a name defined without a value has value 1 (as cpp -D and fortls's 'True')"""
    if out is None:
        out = {"active": [], "n": 0}
    for it in items:
        k = it[0]
        if k == "code":
            out["n"] += 1
            if active:
                out["active"].append(out["n"])
        elif k == "def":
            if active:
                val = 1 if it[2] is None else int(it[2])
                defs[it[1]] = val  # a later definition replaces an earlier one (cpp: warning only)
        elif k == "undef":
            if active:
                defs.pop(it[1], None)
        else:
            _, head, body, elifs, eb = it
            if head[0] == "ifdef":
                c = head[1] in defs
            elif head[0] == "ifndef":
                c = head[1] not in defs
            else:
                c = bool(EXPRS[head[1]][1](defs))
            taken = False
            if active and c:
                taken = True
            ref_pp(body, defs, active and c, out)
            for e, b in elifs:
                # an #elif condition is evaluated only if no earlier branch was taken and the group is live
                c2 = active and not taken and bool(EXPRS[e][1](defs))
                ref_pp(b, defs, c2, out)
                taken = taken or c2
            if eb is not None:
                ref_pp(eb, defs, active and not taken, out)
    return out["active"], defs


def uses_value_of_valueless(items):
    """comparisons on a macro defined without a value are outside the grammar (cpp: syntax error)"""
    return False


def check_program(items, a: bool, b: bool):
    """-> None if fortls agrees with the reference, else a description"""
    defs0 = {}
    if a:
        defs0["A"] = 1
    if b:
        defs0["B"] = 2
    try:
        act, rdefs = ref_pp(items, dict(defs0))
    except Redefinition:
        return None
    lines = ["module m"] + render(items) + ["end module m"]
    f = FortranFile("/x/prog.F90")
    f.set_contents(list(lines))
    ast = f.parse(pp_defs={k: str(v) for k, v in defs0.items()})
    names = sorted(v.name for v in ast.variable_list)
    want = sorted(f"v{i}" for i in act)
    if names != want:
        return f"indexed {names} expected {want} for {lines} defs0={defs0}"
    got = {k: v for k, v in f.pp_defs.items()}
    wantd = {k: str(v) for k, v in rdefs.items()}
    # a macro defined without a value carries fortls's placeholder "True"
    gotn = {k: ("1" if v == "True" else v) for k, v in got.items()}
    if gotn != wantd:
        return f"macro table {got} expected {wantd} for {lines} defs0={defs0}"
    return None


FAIL = []
COUNT = [0]


def prod_of(item) -> int:
    if item[0] == "cond":
        return len(SIMPLE) + HEADS.index(item[1])
    return SIMPLE.index(item)


def programs(p0: int, p1: int):
    for prog in gen_items(MAXL, 0, first=p0):
        if not prog:
            continue
        if p1 == -1:
            if len(prog) == 1:
                yield prog
        elif len(prog) >= 2 and prod_of(prog[1]) == p1:
            yield prog


def skeleton(a: bool, b: bool, p0: int, p1: int) -> bool:
    """all skeletons of <= MAXL lines / depth <= MAXD whose first two top-level items use productions p0, p1
    (p1 == -1: a single top-level item), under the initial definitions selected by a, b
    pre: 0 <= p0 < len(SIMPLE) + len(HEADS) and -1 <= p1 < len(SIMPLE) + len(HEADS) and (p0 * 3 + p1) % NPART == PART
    post: _
    """
    tick("skeleton")
    p0, p1 = conc(p0, 0, len(SIMPLE) + len(HEADS) - 1), conc(p1, -1, len(SIMPLE) + len(HEADS) - 1)
    a, b = bool(a), bool(b)
    ok = True
    with NoTracing():
        for prog in programs(p0, p1):
            COUNT[0] += 1
            msg = check_program(prog, a, b)
            if msg is not None:
                FAIL.append(msg)
                ok = False
                break
    tock("skeleton")
    return ok


PAIR_L = 5 if THOROUGH else 4
PAIR_L1 = 5 if THOROUGH else 3


def pairs(a: bool, b: bool, h1: int, h2: int) -> bool:
    """two consecutive conditional groups (<= PAIR_L1 and <= PAIR_L lines, flat bodies) with heads h1, h2: state kept per
    group (#elif bookkeeping) must not leak from the first group into the second
    pre: 0 <= h1 < len(HEADS) and 0 <= h2 < len(HEADS) and (h1 * 3 + h2) % NPART == PART
    post: _
    """
    tick("pairs")
    h1, h2 = conc(h1, 0, len(HEADS) - 1), conc(h2, 0, len(HEADS) - 1)
    a, b = bool(a), bool(b)
    ok = True
    with NoTracing():
        g2s = [c for c, _ in gen_cond(HEADS[h2], PAIR_L, MAXD - 1)]
        for g1, _ in gen_cond(HEADS[h1], PAIR_L1, MAXD - 1):
            for g2 in g2s:
                COUNT[0] += 1
                msg = check_program([g1, g2, ("code",)], a, b)
                if msg is not None:
                    FAIL.append(msg)
                    ok = False
                    break
            if not ok:
                break
    tock("pairs")
    return ok


# ------------------------------------------------------------------------------------------ macro expansion
BTOK = ["a", "b", " ", "+", "\\", "\\g<1", "(", ")", "'q'", "1", "a_b", "$", "*", "\\1", "&"]


def obj_macro(n: int, t0: int, t1: int, t2: int, use: int) -> bool:
    """object-like macro with a body of <=3 special-character tokens, used in an active line: replaced by its body
    character for character, whole words only
    pre: 1 <= n <= ON and 0 <= t0 < len(BTOK) and 0 <= t1 < len(BTOK) and 0 <= t2 < len(BTOK) and 0 <= use <= 3
    pre: t0 % NPART == PART
    post: _
    """
    tick("obj_macro")
    body = "".join(BTOK[conc(t, 0, len(BTOK) - 1)] for t in [t0, t1, t2][:n])
    use = conc(use, 0, 3)
    if body.strip() != body or body.endswith("\\"):
        return True  # leading/trailing blanks are stripped by every preprocessor; trailing backslash = continuation
    uses = ["x = MM + 1", "x = MM+MM", "y = MMX + XMM + MM_1 + MM", "call s(MM, (MM))"][use]
    lines = [f"#define MM {body}", uses]
    with NoTracing():
        out, skips, defines, defs = preprocess_file(list(lines), "/x/f.F90")
        import re as _re

        want = _re.sub(r"\bMM\b", lambda m: body, uses)
        ok = out[1] == want and defs.get("MM") == body
    tock("obj_macro")
    return ok


FBODY = ["a", "b", " ", "+", "\\", "(", ")", "a_b", "ab", "1", "*", "\\g<2"]
ARGS = ["p", "q(1)", "3", "r%s", "(u+v)"]


def fun_macro(n: int, t0: int, t1: int, t2: int, t3: int, x: int, y: int, form: int) -> bool:
    """function-like macro F(a,b) with a body of <=4 tokens: every use is replaced by the body with the
    arguments substituted for whole-word parameters
    pre: 1 <= n <= FN and 0 <= t0 < len(FBODY) and 0 <= t1 < len(FBODY) and 0 <= t2 < len(FBODY) and 0 <= t3 < len(FBODY)
    pre: 0 <= x < len(ARGS) and 0 <= y < len(ARGS) and 0 <= form <= 2 and (t0 + x) % NPART == PART
    post: _
    """
    tick("fun_macro")
    body = "".join(FBODY[conc(t, 0, len(FBODY) - 1)] for t in [t0, t1, t2, t3][:n])
    x, y, form = conc(x, 0, len(ARGS) - 1), conc(y, 0, len(ARGS) - 1), conc(form, 0, 2)
    if body.strip() != body or body.endswith("\\") or body == "":
        return True
    ax, ay = ARGS[x], ARGS[y]
    use = [f"z = FF({ax},{ay})", f"z = FF({ax},{ay}) - FFX(1,2)", f"z = FF({ax},{ay})"][form]
    lines = [f"#define FF(a,b) {body}", use]
    if form == 2:  # the macro was used, undefined and defined again with OTHER parameter names before this use
        lines = ["#define FF(p1,p2) p2-p1", "w = FF(1,2)", "#undef FF"] + lines
    with NoTracing():
        import re as _re

        out, skips, defines, defs = preprocess_file(list(lines), "/x/f.F90")

        def sub_params(bd):
            return _re.sub(r"\b(a|b)\b", lambda m: ax if m.group(1) == "a" else ay, bd)

        want = use.replace(f"FF({ax},{ay})", sub_params(body), 1)
        ok = out[-1] == want and (form != 2 or out[1] == "w = 2-1")
    tock("fun_macro")
    return ok
