"""Additional sample documents for the positional sweeps (C09, reused by C01/C03): shapes on which round-3 sub-agents
showed internal errors of the pinned tree (all repaired: see known_findings.json, 'fixed:' entries of C09/C20).
Every module / procedure name is unique across the files so that they can live in one workspace."""

X_DEFERRED_UNDECL = """module xm1
  implicit none
  type, abstract :: xbase
  contains
    procedure(xiface), deferred :: run
  end type xbase
  abstract interface
    subroutine xiface(self, n)
      import xbase
      class(xbase), intent(in) :: self
    end subroutine xiface
  end interface
  type, extends(xbase) :: xchild
    integer :: k
  end type xchild
contains
  subroutine xother()
  end subroutine xother
end module xm1
"""
X_CHAIN = ("module xm2\n  type xnode\n    type(xnode), pointer :: next\n    integer :: val\n  end type xnode\ncontains\n  subroutine xs2(x)\n"
           "    type(xnode) :: x\n    print *, x" + "%next" * 33 + "%val\n  end subroutine xs2\nend module xm2\n")
X_INC_MAIN = "program xp3\n  implicit none\n  integer :: a\n  integer :: b\n  integer :: c\n  integer :: d\n  include 'xvars.f90'\n  a = 1\nend program xp3\n"
X_INC_VARS = "integer :: xzz\n"
X_MASK_INTRINSIC = "module xm4\n  use iso_fortran_env\n  implicit none\ncontains\n  subroutine xs4()\n    integer :: int32\n    int32 = 1\n  end subroutine xs4\nend module xm4\n"
X_TYPE_IN_IFACE = "module xm5\n  interface\n    type xt5\n      integer :: k\n    end type xt5\n  end interface\nend module xm5\n"
X_PASS_VAR = "module xm6\n  integer :: xbar\n  type xt6\n  contains\n    procedure, pass(self) :: foo => xbar\n  end type xt6\nend module xm6\n"
X_LINK_GENERIC = """module xm7
  interface xgen
    module procedure xs7
  end interface xgen
  type xt7
  contains
    procedure :: foo => xgen
  end type xt7
contains
  subroutine xs7(self)
    class(xt7) :: self
  end subroutine xs7
  subroutine xq7(x)
    type(xt7) :: x
    call x%foo()
    associate (g => xgen)
      call g(x)
    end associate
  end subroutine xq7
end module xm7
"""
X_RESULT_PTR = ("module xm8\ncontains\nfunction xf8(x) result(r)\n  integer :: x\n  procedure(xf8), pointer :: r\nend function xf8\n"
                "function xg8(x) result(r)\n  integer :: x\n  procedure(xh8), pointer :: r\nend function xg8\n"
                "function xh8(x) result(r)\n  integer :: x\n  procedure(xg8), pointer :: r\n  r => xg8\nend function xh8\nend module xm8\n")
X_PASS_PTR = "module xm9\n  integer :: xk9\n  type xt9\n    procedure(xk9), pointer, pass(x) :: pb\n  end type xt9\nend module xm9\n"
X_KEYWORD_NAMES = ("module xm10\n  integer :: blocks(3), interfaces(2), block_size(4), endv, end_time(2)\n  type xt10\n    integer :: n\n  end type xt10\n"
                   "contains\n  subroutine xs10()\n    type(xt10) :: t\n    integer :: n\n    blocks(1) = 2\n    interfaces(1) = 2\n    block_size(2) = 0\n"
                   "    endv = blocks(1)\n    end_time(2) = 0\n    n=1;t%n=2\n  end subroutine xs10\n  subroutine xs11()\n  end subroutine xs11\nend module xm10\n")
X_FIXED_COMMENTS = ("      subroutine xdemo(n, b)\n      implicit none\n      integer n, ! first\n     &        b ! second\nDo not change the next line\n"
                    "Call the other one\n      n = b +\n     $n\n      end subroutine xdemo\n      subroutine xother2(m)\n      integer m\n      end subroutine xother2\n")

X_BOUND_UNDECL = ("module xm12\n  type xt12\n  contains\n    procedure :: foo => xfoo12\n    procedure, pass(self) :: bar => xbar12\n  end type xt12\ncontains\n"
                  "  subroutine xfoo12(self, a, undecl)\n    class(xt12) :: self\n    integer :: a\n  end subroutine xfoo12\n"
                  "  subroutine xbar12(a, self, undecl2)\n    class(xt12) :: self\n    integer :: a\n  end subroutine xbar12\n"
                  "  subroutine xq12(x)\n    type(xt12) :: x\n    call x%foo(1, 2)\n    call x%bar(1, 2)\n    call x%foo(1, \n  end subroutine xq12\nend module xm12\n")

EXTRA = {
    "x12.f90": X_BOUND_UNDECL,
    "x1.f90": X_DEFERRED_UNDECL, "x2.f90": X_CHAIN, "x3.f90": X_INC_MAIN, "xvars.f90": X_INC_VARS, "x4.f90": X_MASK_INTRINSIC,
    "x5.f90": X_TYPE_IN_IFACE, "x6.f90": X_PASS_VAR, "x7.f90": X_LINK_GENERIC, "x8.f90": X_RESULT_PTR, "x9.f90": X_PASS_PTR,
    "x10.f90": X_KEYWORD_NAMES, "x11.f": X_FIXED_COMMENTS,
}
