"""C10 - after saving, answers depend only on the files, not on the edit history.

Real code executed through the real server over an in-memory file system: serve_onOpen / onChange / onSave /
onClose, update_workspace_file (replace AST, prune and re-add obj_tree keys), resolve_includes, resolve_links
(Type.resolve_inherit, Variable/Method/Interface/Submodule links), and the query handlers used for the dump.

(H) bounded histories: a 4-file workspace (module a with a type; module mb that uses it: declared variables,
    EXTENDS, component access, a call, an INCLUDE; a submodule of a; the include file) and event sequences of
    <= 3 events from {query everything, edit a file to another version (buffer only), save a version, close,
    delete, (re)create}.  After the final 'save everything' the dump of answers (completion after v% / w% / x%,
    definitions, hover, references, diagnostics, document and workspace symbols) must equal that of a fresh
    server on the same files.
(G) the generation counter: one save step from a state in which a type in another file was last resolved at
    version w while the counter is v - both symbolic ints; the range of w is what the real counter can have
    taken (probed from the real code: wrapping or not).  A counterexample is confirmed by a concrete history.
"""
import os

from crosshair.tracers import NoTracing

from lib.hx import conc, kf_active, npart, part, silence, tick, tock

silence()
from lib import ws  # noqa: E402

from fortls.jsonrpc import path_to_uri  # noqa: E402

PART, NPART = part(), npart()
THOROUGH = os.environ.get("VERIF_TIER", "quick") == "thorough"
R = ws.ROOT
SRV = ws.make_server()
SRV2 = ws.make_server()
FAIL = []
PA, PB, PC, PI = f"{R}/a.f90", f"{R}/mb.f90", f"{R}/asub.f90", f"{R}/inc.f90"
PG, PP = f"{R}/g1.f90", f"{R}/p1.f90"
PJ = f"{R}/inc2.f90"  # included through a path that is not in normal form ('./inc2.f90')
J = ["integer :: second_inc\n", "real :: j_b\ninteger :: second_inc\n"]
G = ["module g1\n  type gt\n    integer :: gx\n  end type gt\nend module g1\n",
     "module g1\n  type gt\n    integer :: gy\n    real :: g2\n  end type gt\nend module g1\n"]
P = "module p1\n  use g1\n  type, extends(gt) :: mt\n    integer :: px\n  end type mt\nend module p1\n"

A = [
    "module a\n  type t\n    integer :: old\n  end type t\n  integer :: av\n  interface\n    module subroutine msub(x)\n      integer :: x\n    end subroutine msub\n  end interface\ncontains\n  subroutine helper()\n  end subroutine helper\nend module a\n",
    "module a\n  type t\n    integer :: new\n    real :: extra\n  end type t\n  integer :: av\n  interface\n    module subroutine msub(x)\n      integer :: x\n    end subroutine msub\n  end interface\ncontains\n  subroutine helper()\n  end subroutine helper\nend module a\n",
    "module a\n  integer :: av\n  interface\n    module subroutine msub(x)\n      integer :: x\n    end subroutine msub\n  end interface\ncontains\n  subroutine helper()\n  end subroutine helper\nend module a\n",
    "module a2\n  type t\n    integer :: old\n  end type t\n  integer :: av\nend module a2\n",
    "module a\n  type base\n    integer :: deep\n  end type base\n  type, extends(base) :: t\n    integer :: old\n  end type t\n  integer :: av2\ncontains\n  subroutine helper2()\n  end subroutine helper2\nend module a\n",
]
B = ("module mb\n  use a\n  use p1\n  type, extends(t) :: u\n    integer :: own\n  contains\n    procedure :: bound => helper\n  end type u\n"
     "  type, extends(mt) :: leaf\n    integer :: lx\n  end type leaf\n  type(leaf) :: z\n"
     "  type(t) :: v\n  type(u) :: w\n  include 'inc.f90'\n  include './inc2.f90'\ncontains\n  subroutine s()\n    v%\n    w%\n    z%\n    av = 1\n    call helper()\n"
     "    from_inc = 2\n    inc_b = 3\n    second_inc = 4\n    j_b = 5\n    call w%bound()\n  end subroutine s\nend module mb\n")
C = "submodule (a) asub\n  integer :: sv\ncontains\n  module subroutine msub(x)\n    integer :: x\n    x = av\n  end subroutine msub\nend submodule asub\n"
I = ["integer :: from_inc\n", "integer :: inc_b\nreal :: other_inc\n"]
BL = B.split("\n")


def _line(text):
    return next(i for i, ln in enumerate(BL) if ln.strip() == text)


def dump(srv):
    """answers that depend on cross-file state"""
    out = {}
    for tag, ln, col in (("v%", _line("v%"), 6), ("w%", _line("w%"), 6), ("z%", _line("z%"), 6)):
        r = ws.request(srv, "textDocument/completion", PB, ln, col)
        out["comp " + tag] = sorted(i["label"] for i in (r[1] or [])) if r[0] == "resp" else r
    for name, text, col in (("av", "av = 1", 4), ("helper", "call helper()", 9), ("from_inc", "from_inc = 2", 4), ("inc_b", "inc_b = 3", 4), ("second_inc", "second_inc = 4", 4), ("j_b", "j_b = 5", 4),
                            ("t", "type(t) :: v", 7), ("u.t", "type, extends(t) :: u", 16), ("bound", "call w%bound()", 11)):
        ln = _line(text)
        for meth in ("textDocument/definition", "textDocument/hover"):
            r = ws.request(srv, meth, PB, ln, col)
            if r[0] != "resp":
                out[f"{meth[13:]} {name}"] = r
            elif meth.endswith("definition"):
                out[f"def {name}"] = None if r[1] is None else (r[1]["uri"], r[1]["range"]["start"]["line"])
            else:
                out[f"hover {name}"] = None if r[1] is None else r[1]["contents"]["value"]
    r = ws.request(srv, "textDocument/references", PB, _line("av = 1"), 4)
    out["refs av"] = sorted((x["uri"], x["range"]["start"]["line"]) for x in (r[1] or [])) if r[0] == "resp" else r
    if PC in ws.FILES:
        r = ws.request(srv, "textDocument/definition", PC, 5, 8)
        out["def av in submodule"] = None if r[0] != "resp" or r[1] is None else (r[1]["uri"], r[1]["range"]["start"]["line"])
    for p in sorted(ws.FILES):
        r = ws.request(srv, "textDocument/documentSymbol", p, 0, 0)
        out["sym " + p] = [(s["name"], s["kind"], s["location"]["range"]["start"]["line"]) for s in r[1]] if r[0] == "resp" else r
        try:
            out["diag " + p] = sorted((d["severity"], d["message"], d["range"]["start"]["line"]) for d in ws.diagnostics(srv, p))
        except Exception as e:  # noqa: BLE001
            out["diag " + p] = repr(e)
    n0 = len(srv.conn.out)
    srv.handle({"jsonrpc": "2.0", "id": 5, "method": "workspace/symbol", "params": {"query": ""}})
    o = [x for x in srv.conn.out[n0:] if x[0] != "notif"]
    out["wsym"] = sorted((s["name"], s.get("containerName")) for s in o[0][2]) if o and o[0][0] == "resp" else o
    return out


def notify(srv, method, path, **extra):
    params = {"textDocument": {"uri": path_to_uri(path)}}
    params.update(extra)
    srv.handle({"jsonrpc": "2.0", "method": method, "params": params})


# events: (kind, file, version)
EVENTS = [("query", None, None)]
EVENTS += [("change", "a", i) for i in range(len(A))] + [("save", "a", i) for i in range(len(A))]
EVENTS += [("change", "i", i) for i in range(len(I))] + [("save", "i", i) for i in range(len(I))]
EVENTS += [("change", "g", 1), ("save", "g", 1), ("edit1", "a", None), ("close", "g", None), ("save", "j", 1), ("change", "j", 1)]
EVENTS += [("close", "a", None), ("delete", "a", None), ("create", "a", 0), ("create", "a", 1), ("delete", "c", None), ("create", "c", 0),
           ("delete", "i", None), ("create", "i", 1)]
NEV = len(EVENTS)
PATHS = {"a": PA, "i": PI, "c": PC, "b": PB, "g": PG, "p": PP, "j": PJ}
VERS = {"a": A, "i": I, "c": [C], "b": [B], "g": G, "p": [P], "j": J}


KF_UNDO = kf_active("C10-unsaved-edit-undone")


def run_history(evs, final_a: int, final_i: int, minimal_tail: int = 0, strict: bool = False):
    """-> (dump of the long-lived server, dump of a fresh server)"""
    changed_since_save = set()
    files = {PA: A[0], PB: B, PC: C, PI: I[0], PG: G[0], PP: P, PJ: J[0]}
    srv = ws.reset(SRV, files)
    open_docs = {PA, PB, PC, PI, PG, PP, PJ}
    for kind, f, ver in evs:
        if kind == "query":
            dump(srv)
        elif kind == "change":
            if PATHS[f] in open_docs and PATHS[f] in ws.FILES:
                notify(srv, "textDocument/didChange", PATHS[f], contentChanges=[{"text": VERS[f][ver]}])
                changed_since_save.add(PATHS[f])
        elif kind == "edit1":  # ranged single-line edit (incremental sync), buffer only
            if PATHS[f] in open_docs and PATHS[f] in ws.FILES:
                fo = srv.workspace.get(PATHS[f])
                ln = next((i for i, t in enumerate(fo.contents_split) if "subroutine helper" in t and "end" not in t), None) if fo else None
                if ln is not None:
                    col = fo.contents_split[ln].index("helper") + 6
                    notify(srv, "textDocument/didChange", PATHS[f], contentChanges=[
                        {"range": {"start": {"line": ln, "character": col}, "end": {"line": ln, "character": col}}, "text": "_v2"}])
                    changed_since_save.add(PATHS[f])
        elif kind == "save":
            if PATHS[f] in open_docs and PATHS[f] in ws.FILES:
                ws.FILES[PATHS[f]] = VERS[f][ver]
                notify(srv, "textDocument/didSave", PATHS[f])
                changed_since_save.discard(PATHS[f])
        elif kind == "close":
            if PATHS[f] in open_docs:
                notify(srv, "textDocument/didClose", PATHS[f])
                open_docs.discard(PATHS[f])
        elif kind == "delete":
            if PATHS[f] in ws.FILES:
                del ws.FILES[PATHS[f]]
                notify(srv, "textDocument/didClose", PATHS[f])
                open_docs.discard(PATHS[f])
        elif kind == "create":
            ws.FILES[PATHS[f]] = VERS[f][ver]
            notify(srv, "textDocument/didOpen", PATHS[f])
            open_docs.add(PATHS[f])
    # final state: buffers equal the files
    before = dict(ws.FILES)
    if PA in ws.FILES:
        ws.FILES[PA] = A[final_a]
    if PI in ws.FILES:
        ws.FILES[PI] = I[final_i]
    if PG in ws.FILES:
        ws.FILES[PG] = G[(final_a + final_i) % 2]
    if PJ in ws.FILES:
        ws.FILES[PJ] = J[(final_a + 1) % 2]
    if minimal_tail:
        # only what is needed to get there: a file whose buffer may differ from the disk is saved once, in the given
        # order; nothing else is touched (a save of an includer or of a dependent file would hide stale state)
        dirty = [p for p in sorted(ws.FILES, reverse=minimal_tail == 2)
                 if p not in srv.workspace or "\n".join(srv.workspace[p].contents_split).rstrip("\n") != ws.FILES[p].rstrip("\n")
                 or before.get(p) != ws.FILES[p]
                 # known finding C10-unsaved-edit-undone: a document edited and edited back (buffer == disk again, never
                 # saved) leaves other files linked to the intermediate version; until repaired such a document is saved too
                 or (KF_UNDO and not strict and p in changed_since_save)]
        for p in dirty:
            if p not in open_docs:
                notify(srv, "textDocument/didOpen", p)
                open_docs.add(p)
            notify(srv, "textDocument/didSave", p)
    else:
        # every existing file is saved, twice (closed files are re-read by a save as well)
        for p in sorted(ws.FILES):
            if p not in open_docs:
                notify(srv, "textDocument/didOpen", p)
                open_docs.add(p)
            notify(srv, "textDocument/didSave", p)
        for p in sorted(ws.FILES):
            notify(srv, "textDocument/didSave", p)
    got = dump(srv)
    final_files = dict(ws.FILES)
    fresh = ws.fresh_init(SRV2, final_files)  # the real workspace_init of a freshly started server: no history at all
    want = dump(fresh)
    ws.FILES.clear()
    ws.FILES.update(final_files)
    return got, want, final_files


def history(e0: int, fa: int, tail: int) -> bool:
    """first event, the final version of a.f90 and the way the history ends symbolic (tail 1 / 2: only the files whose
    buffer or disk content changed are saved, once, in ascending / descending path order; tail 0, thorough only: every
    file is saved twice); the second (and in thorough the third) event and the final version of the include file
    enumerated inside
    pre: 0 <= e0 < NEV and 0 <= fa < len(A) and (0 if THOROUGH else 1) <= tail <= 2 and (e0 * 5 + fa) % NPART == PART
    post: _
    """
    tick("history")
    e0, fa, tail = conc(e0, 0, NEV - 1), conc(fa, 0, len(A) - 1), conc(tail, 0, 2)
    ok = True
    with NoTracing():
        for e1 in range(-1, NEV):
            for e2 in ([-1] if (e1 == -1 or not THOROUGH) else range(-1, NEV, 2)):  # third event: none, or every second one
                for fi in range(len(I)):
                    evs = [EVENTS[e0]] + ([EVENTS[e1]] if e1 >= 0 else []) + ([EVENTS[e2]] if e2 >= 0 else [])
                    got, want, final_files = run_history(evs, fa, fi, tail)
                    if got != want:
                        diff = {k: (got.get(k), want.get(k)) for k in want if got.get(k) != want.get(k)}
                        FAIL.append(f"history {evs} tail={tail} final a={fa} i={fi} (files {sorted(final_files)}): long-lived vs fresh differ in {diff}")
                        ok = False
                        break
                if not ok:
                    break
            if not ok:
                break
    tock("history")
    return ok


# ------------------------------------------------------------------------------------ (G) generation counter
def _probe_wraps() -> bool:
    """does the real counter wrap?  one real save step from 999"""
    srv = ws.reset(SRV, {PA: A[0], PB: B, PC: C, PI: I[0], PG: G[0], PP: P, PJ: J[0]})
    srv.link_version = 999
    ws.FILES[PA] = A[1]
    notify(srv, "textDocument/didSave", PA)
    return srv.link_version <= 999


WRAPS = _probe_wraps()


def _confirm_wrap_history() -> bool:
    """concrete history: module mb is resolved, then 999 reparsing edits of another file, then a's type changes on
    disk and is saved: does mb's inherited layout stay stale compared with a fresh server?"""
    files = {PA: A[0], PB: B, PC: C, PI: I[0], PG: G[0], PP: P, PJ: J[0]}
    srv = ws.reset(SRV, files)
    for p in sorted(files):
        notify(srv, "textDocument/didSave", p)
    v0 = srv.link_version
    k = 0
    while (srv.link_version + 1) % 1000 != v0 % 1000 and k < 1200:
        notify(srv, "textDocument/didChange", PC, contentChanges=[{"text": C + "! %d\n" % k}])
        k += 1
    ws.FILES[PA] = A[1]
    notify(srv, "textDocument/didSave", PA)
    got = dump(srv)["comp w%"]
    fresh = ws.reset(SRV2, dict(ws.FILES))
    for p in sorted(ws.FILES):
        notify(fresh, "textDocument/didSave", p)
    want = dump(fresh)["comp w%"]
    return got != want


def generation(v: int, w: int) -> bool:
    """one real save step (file a changes its type) from link_version = v with mb's extending type last resolved at
    version w; afterwards the inherited members of the extending type come from the NEW parent
    pre: 0 <= v and 0 <= w and (v < 1000 and w < 1000 if WRAPS else w <= v)
    post: _
    """
    tick("generation")
    with NoTracing():
        files = {PA: A[0], PB: B, PC: C, PI: I[0], PG: G[0], PP: P, PJ: J[0]}
        srv = ws.reset(SRV, files)
        u = next(s for s in srv.workspace[PB].ast.scope_list if s.name == "u")
    srv.link_version = v
    u.inherit_version = w
    with NoTracing():
        ws.FILES[PA] = A[1]
    # serve_onSave and the link resolution below it run TRACED (v, w symbolic: the version arithmetic and the
    # "already resolved at this version" test are decided by the solver); only the re-parse of the saved file and
    # the URI conversion run untraced
    _save_step(srv, u)
    with NoTracing():
        names = sorted(c.name for c in u.in_children)
    ok = "new" in names and "old" not in names
    if not ok:
        with NoTracing():
            ok = not _confirm_wrap_history()  # report only what a concrete history reproduces
    tock("generation")
    return ok


def _untraced(fn):
    def wrapper(*a, **k):
        with NoTracing():
            return fn(*a, **k)
    return wrapper


def _save_step(srv, u):
    import fortls.langserver as L

    real_update, real_pfu = srv.update_workspace_file, L.path_from_uri
    srv.update_workspace_file = _untraced(real_update)
    L.path_from_uri = _untraced(real_pfu)
    srv.disable_diagnostics = True
    try:
        srv.serve_onSave({"params": {"textDocument": {"uri": "file://" + PA}}})
    finally:
        srv.update_workspace_file = real_update
        L.path_from_uri = real_pfu
        srv.disable_diagnostics = False


# ------------------------------------------------------------------------------------ (I) enumeration order at start-up
def init_orders(i0: int, fa: int, fi: int) -> bool:
    """a freshly started server (the real workspace_init) must give the same answers whatever order the directory walk
    lists the files in: all 7! orders in thorough, every 6th of them in quick (first file symbolic, the rest enumerated), every version of a.f90 and of the
    include file; compared with the ascending order
    pre: 0 <= i0 < 7 and 0 <= fa < len(A) and 0 <= fi < len(I) and (i0 * 5 + fa) % NPART == PART
    post: _
    """
    tick("init_orders")
    i0, fa, fi = conc(i0, 0, 6), conc(fa, 0, len(A) - 1), conc(fi, 0, len(I) - 1)
    ok = True
    with NoTracing():
        import itertools

        files = {PA: A[fa], PB: B, PC: C, PI: I[fi], PG: G[fa % 2], PP: P, PJ: J[fi]}
        names = sorted(files)
        want = dump(ws.fresh_init(SRV2, files, names))
        rest = [n for n in names if n != names[i0]]
        for perm in itertools.islice(itertools.permutations(rest), (i0 + fa + fi) % 6 if not THOROUGH else 0, None, 1 if THOROUGH else 6):
            got = dump(ws.fresh_init(SRV, files, [names[i0]] + list(perm)))
            if got != want:
                diff = {k: (got.get(k), want.get(k)) for k in want if got.get(k) != want.get(k)}
                FAIL.append(f"workspace_init over {[names[i0]] + list(perm)} (a={fa}, i={fi}) differs from ascending order in {diff}")
                ok = False
                break
    tock("init_orders")
    return ok


# ------------------------------------------------------------------------------------ (S) further cross-file scenarios
_IMPL = "module impl\ncontains\nsubroutine do_it(x, self)\nreal :: x\nclass(*) :: self\nend subroutine\nend module impl\n"
_TYPES = ("module types\nuse impl\ntype t\ncontains\nprocedure, pass(self) :: do_it\nend type t\ncontains\nsubroutine user()\ntype(t) :: v\n"
          "call v%do_it(1.0)\nend subroutine\nend module types\n")
_INCU = "module incu\nimplicit none\ncontains\nsubroutine sub(a, b)\ninclude 'args.f90'\nb = a\nend subroutine sub\nend module incu\n"
_OMP = "module omp_lib\ninteger :: mine\nend module omp_lib\n"
_OMPU = "subroutine ompu()\nuse omp_lib\nprint *, omp_get_num_threads()\nend subroutine ompu\n"
_PPA = '#include "defs.h"\nmodule ppa\n#ifdef USE_X\ninteger :: x\n#endif\nend module ppa\n'
# (initial files, [(event, file, new text or None)], probes [(file, line, col)])
SCEN = [
    ({"impl.f90": _IMPL, "types.f90": _TYPES}, [("save", "impl.f90", _IMPL.replace("(x, self)", "(x, me)").replace(":: self", ":: me"))],
     [("types.f90", 9, 9), ("types.f90", 9, 14), ("types.f90", 4, 25)]),
    ({"incu.f90": _INCU, "args.f90": "real :: a\nreal :: b\n"}, [("save", "args.f90", "! nothing\n")], [("incu.f90", 3, 15), ("incu.f90", 5, 0)]),
    ({"incu.f90": _INCU, "args.f90": "real :: a\nreal :: b\n"}, [("delete", "args.f90", None)], [("incu.f90", 3, 15), ("incu.f90", 5, 0)]),
    ({"incu.f90": _INCU, "args.f90": "real :: a\nreal :: b\n"}, [("save", "args.f90", "integer :: a\n"), ("delete", "args.f90", None)], [("incu.f90", 3, 15), ("incu.f90", 5, 4)]),
    ({"m.f90": _OMP, "u.f90": _OMPU}, [("save", "m.f90", "module other\ninteger :: mine\nend module other\n")], [("u.f90", 1, 6), ("u.f90", 2, 12)]),
    ({"m.f90": _OMP, "u.f90": _OMPU}, [("delete", "m.f90", None)], [("u.f90", 1, 6), ("u.f90", 2, 12)]),
    ({"sub1/b.F90": "module bm\ninteger :: y\nend module bm\n", "sub2/a.F90": _PPA, "sub1/defs.h": "#define USE_X\n"},
     [("save", "sub1/b.F90", "module bm\ninteger :: y\nend module bm\n\n"), ("save", "sub2/a.F90", _PPA + "\n")], [("sub2/a.F90", 3, 11)]),
]


def _scen_dump(srv, names, probes):
    out = {}
    for (p, ln, c) in probes:
        for m in ("textDocument/hover", "textDocument/definition", "textDocument/signatureHelp", "textDocument/completion"):
            r = ws.request(srv, m, f"{R}/{p}", ln, c)
            out[(p, ln, c, m)] = str(r if m != "textDocument/completion" else (r[0], sorted(i["label"] for i in (r[1] or [])) if r[0] == "resp" else r))
    for p in names:
        if f"{R}/{p}" in srv.workspace:
            out[("diag", p)] = str(sorted((d["message"], d["range"]["start"]["line"]) for d in ws.diagnostics(srv, f"{R}/{p}")))
            out[("sym", p)] = str(ws.request(srv, "textDocument/documentSymbol", f"{R}/{p}", 0, 0))
    return out


def scenarios(k: int, reopen: bool) -> bool:
    """further cross-file scenarios on small workspaces (a PASS(name) binding whose target changes its argument
    names; an include file of dummy-argument declarations emptied / deleted / changed then deleted; a user module
    named like an intrinsic module renamed / deleted; preprocessed files in two directories saved one after the
    other): after the events (each file saved or deleted, optionally re-opened first) the answers at the probes,
    diagnostics and outlines equal those of a fresh server (real workspace_init) on the final files
    pre: 0 <= k < len(SCEN)
    post: _
    """
    tick("scenarios")
    k = conc(k, 0, len(SCEN) - 1)
    reopen = bool(reopen)
    ok = True
    with NoTracing():
        files0, events, probes = SCEN[k]
        f0 = {f"{R}/{n}": t for n, t in files0.items()}
        srv = ws.fresh_init(SRV, f0)
        for ev, name, text in events:
            p = f"{R}/{name}"
            if reopen:
                notify(srv, "textDocument/didOpen", p)
            if ev == "save":
                ws.FILES[p] = text
                notify(srv, "textDocument/didSave", p)
            else:
                del ws.FILES[p]
                notify(srv, "textDocument/didClose", p)
        final = dict(ws.FILES)
        got = _scen_dump(srv, list(files0), probes)
        fresh = ws.fresh_init(SRV2, final)
        want = _scen_dump(fresh, list(files0), probes)
        if got != want:
            diff = {kk: (got.get(kk, "")[:200], want.get(kk, "")[:200]) for kk in set(got) | set(want) if got.get(kk) != want.get(kk)}
            FAIL.append(f"scenario {k} (reopen={reopen}): long-lived vs fresh differ in {diff}")
            ok = False
    tock("scenarios")
    return ok
