"""C01 - one response per request, in order; server outlives any handler failure.

Real code executed symbolically: LangServer.handle, LangServer.run,
serve_default, serve_exit, post_message, send_diagnostics, get_diagnostics,
serve_onSave / serve_onOpen / serve_onClose / serve_onChange.

Stubs (part of the claim): the connection (records what is written), the
request handlers in H1/H2 (contract: return a JSON value or raise an
Exception - C09 discharges that for the positional handlers within its own
bounds), update_workspace_file / FortranFile.check_file / apply_change in H3
(nondeterministic outcome), logging and traceback formatting.
"""
import ast
import inspect
import json
import os
import textwrap

from lib.hx import npart, part, silence, tick, tock

silence()

from fortls.interface import cli  # noqa: E402
from fortls.langserver import JSONRPC2Error, LangServer  # noqa: E402
from fortls.parsers.internal.ast import FortranAST  # noqa: E402
from fortls.parsers.internal.parser import FortranFile  # noqa: E402


def _dispatch_keys():
    """method names of the dispatch table, read from handle()'s source"""
    src = textwrap.dedent(inspect.getsource(LangServer.handle))
    keys = []
    for node in ast.walk(ast.parse(src)):
        if isinstance(node, ast.Dict) and len(node.keys) > 5:
            keys = [k.value for k in node.keys if isinstance(k, ast.Constant)]
    assert len(keys) >= 10, keys
    return keys


METHODS = _dispatch_keys()
# complement class representatives: empty, unknown, near-misses (case, prefix, suffix)
UNKNOWN = ["", "foo/bar", "Exit", "exit ", "textDocument/hove", "textDocument/hoverX", "$/unknown"]
ALL = METHODS + UNKNOWN
NOOPS = [m for m in METHODS if m in ("initialized", "workspace/didChangeWatchedFiles",
                                     "workspace/didChangeConfiguration", "$/cancelRequest", "$/setTrace", "shutdown")]


class Conn:
    def __init__(self):
        self.out = []
        self.inbox = []

    def write_response(self, rid, result):
        self.out.append(("resp", rid, result))

    def write_error(self, rid, code, message, data=None):
        self.out.append(("err", rid, code, message, data))

    def send_notification(self, method, params):
        self.out.append(("notif", method, params))

    def read_message(self):
        if not self.inbox:
            raise EOFError()
        return self.inbox.pop(0)


def jsonable(x) -> bool:
    """structural JSON-serialisability (json.dumps itself is C code and would realise symbolic ids)"""
    if x is None or isinstance(x, (bool, int, float, str)):
        return True
    if isinstance(x, (list, tuple)):
        return all(jsonable(i) for i in x)
    if isinstance(x, dict):
        return all(isinstance(k, str) and jsonable(v) for k, v in x.items())
    return False


class Boom(Exception):
    pass


OUTCOME = [0]
CALLS = []


def _stub(request):
    CALLS.append(request.get("method"))
    o = OUTCOME[0]
    if o == 0:
        return None
    if o == 1:
        return {"a": [1, "x", None]}
    if o == 2:
        raise JSONRPC2Error(code=-32602, message="bad params")
    if o == 3:
        raise Boom("b")
    if o == 4:
        raise KeyError("params")
    if o == 5:
        raise RecursionError("maximum recursion depth exceeded")
    if o == 6:
        raise AttributeError("'NoneType' object has no attribute 'x'")
    return []


N_OUTCOMES = 8
SRV = LangServer(Conn(), vars(cli("fortls").parse_args([])))
_REAL = {}
for _n in dir(SRV):
    if _n.startswith("serve_") and _n not in ("serve_exit", "serve_default"):
        _REAL[_n] = getattr(SRV, _n)
        setattr(SRV, _n, _stub)
IDS_STR = ["", "7"]
PART, NPART = part(), npart()


def _mkid(id_kind: int, rid: int):
    return rid if id_kind == 0 else IDS_STR[rid % len(IDS_STR)]


def _check_one(method, has_id, rid, outcome, out):
    """the pairing rules for one message; out = non-notification writes"""
    if not has_id:
        return len(out) == 0
    if len(out) != 1 or out[0][1] != rid:
        return False
    kind = out[0][0]
    if method not in METHODS:
        return kind == "err" and out[0][2] == -32601
    if method == "exit" or method in NOOPS:
        return kind == "resp" and out[0][2] is None
    if outcome in (0, 1, 7):
        return kind == "resp"
    if outcome == 2:
        return kind == "err" and out[0][2] == -32602
    return kind == "err" and out[0][2] == -32603


def step(k: int, has_id: bool, id_kind: int, rid: int, outcome: int, was_running: bool) -> bool:
    """H1: one handle() step from an arbitrary protocol state.
    pre: 0 <= k < len(ALL) and k % NPART == PART
    pre: 0 <= outcome < N_OUTCOMES
    pre: 0 <= id_kind <= 1
    post: _
    """
    tick("step")
    srv = SRV
    method = ALL[k]
    srv.conn.out = []
    srv.running = was_running
    srv.post_messages = []
    OUTCOME[0] = outcome
    del CALLS[:]
    req = {"jsonrpc": "2.0", "method": method, "params": {}}
    the_id = _mkid(id_kind, rid)
    if has_id:
        req["id"] = the_id
    srv.handle(req)
    out = [o for o in srv.conn.out if o[0] != "notif"]
    ok = _check_one(method, has_id, the_id, outcome, out)
    # liveness flag cleared only by exit
    ok = ok and (srv.running == (was_running and method != "exit"))
    # handler invoked exactly once for known non-noop methods
    if method in METHODS and method != "exit" and method not in NOOPS:
        ok = ok and len(CALLS) == 1
    # every payload serialisable
    ok = ok and jsonable(srv.conn.out)
    tock("step")
    return ok


# H2 works on representatives of the method classes H1 distinguishes (regular handler,
# sync notification, no-op, exit, unknown) - H1 covers every individual method.
if os.environ.get("VERIF_TIER", "quick") == "thorough":
    M2 = ["textDocument/hover", "textDocument/didChange", "initialized", "shutdown", "exit", "foo/bar", "", "workspace/symbol"]
    O2 = list(range(N_OUTCOMES))
else:
    M2 = ["textDocument/hover", "textDocument/didChange", "shutdown", "exit", "foo/bar"]
    O2 = [0, 2, 3, 5]
assert all(m in METHODS for m in M2 if m not in UNKNOWN), M2


def run3(n: int, k0: int, k1: int, k2: int, i0: bool, i1: bool, i2: bool, outcome: int) -> bool:
    """H2: run() over a stub connection yielding n<=3 messages then EOF.
    pre: 0 <= n <= 3
    pre: 0 <= k0 < len(M2) and 0 <= k1 < len(M2) and 0 <= k2 < len(M2)
    pre: 0 <= outcome < len(O2) and (k0 * len(M2) + k1) % NPART == PART
    post: _
    """
    tick("run3")
    srv = SRV
    ks = [k0, k1, k2][:n]
    ids = [i0, i1, i2][:n]
    outcome = O2[outcome]
    msgs = []
    for j, (k, has_id) in enumerate(zip(ks, ids)):
        m = {"jsonrpc": "2.0", "method": M2[k], "params": {}}
        if has_id:
            m["id"] = 100 + j
        msgs.append(m)
    srv.conn.out = []
    srv.conn.inbox = list(msgs)
    srv.running = True
    srv.post_messages = []
    OUTCOME[0] = outcome
    del CALLS[:]
    srv.run()
    out = [o for o in srv.conn.out if o[0] != "notif"]
    # messages after `exit` are never read
    served = []
    for m in msgs:
        served.append(m)
        if m["method"] == "exit":
            break
    expected_ids = [m["id"] for m in served if "id" in m]
    ok = [o[1] for o in out] == expected_ids  # exactly one each, arrival order
    for m in served:
        mine = [o for o in out if "id" in m and o[1] == m["id"]]
        ok = ok and _check_one(m["method"], "id" in m, m.get("id"), outcome, mine)
    # the loop stopped because of exit or EOF, not because a handler failed
    ok = ok and len(srv.conn.inbox) == len(msgs) - len(served)
    ok = ok and not any(o[0] == "notif" and "Unexpected error" in str(o[2]) for o in srv.conn.out)
    tock("run3")
    return ok


# ---------------------------------------------------------------- H3: sync handlers (real bodies)
class _File(FortranFile):
    pass


SRV3 = LangServer(Conn(), vars(cli("fortls").parse_args(["--incremental_sync"])))
SYNC = ["textDocument/didOpen", "textDocument/didSave", "textDocument/didClose", "textDocument/didChange"]
U = [0, 0, 0]


def _upd(filepath, read_file=False, allow_empty=False, update_links=False):
    o = U[0]
    if o == 0:
        return False, None
    if o == 1:
        return True, None
    return False, "Error during parsing"


def _chk(obj_tree, max_line_length=-1, max_comment_line_length=-1):
    o = U[1]
    if o == 0:
        return []
    if o == 1:
        return [{"range": {"start": {"line": 0, "character": 0}, "end": {"line": 0, "character": 0}},
                 "message": "m", "severity": 1}]
    if o == 2:
        raise RecursionError("maximum recursion depth exceeded")
    raise AttributeError("x")


def _apply(change):
    o = U[2]
    if o == 0:
        return False
    if o == 1:
        return True
    raise IndexError("list index out of range")


SRV3.update_workspace_file = _upd
_F3 = FortranFile("/w/a.f90")
_F3.ast = FortranAST(_F3)
_F3.check_file = _chk
_F3.apply_change = _apply


def sync(k: int, has_id: bool, rid: int, known_file: bool, u: int, c: int, a: int, diag_off: bool) -> bool:
    """H3: the four document-sync handlers, real bodies, nondeterministic parse/diagnostic outcome.
    pre: 0 <= k < 4 and 0 <= u <= 2 and 0 <= c <= 3 and 0 <= a <= 2
    post: _
    """
    tick("sync")
    srv = SRV3
    srv.conn.out = []
    srv.running = True
    srv.post_messages = []
    srv.disable_diagnostics = diag_off
    srv.workspace = {"/w/a.f90": _F3} if known_file else {}
    U[0], U[1], U[2] = u, c, a
    req = {"jsonrpc": "2.0", "method": SYNC[k],
           "params": {"textDocument": {"uri": "file:///w/a.f90"},
                      "contentChanges": [{"text": "x"}, {"text": "y"}]}}
    if has_id:
        req["id"] = rid
    srv.handle(req)
    out = [o for o in srv.conn.out if o[0] != "notif"]
    if has_id:
        ok = len(out) == 1 and out[0][1] == rid
    else:
        ok = len(out) == 0
    # every emitted id is the id of a received request
    ok = ok and all(o[1] == rid and has_id for o in out)
    ok = ok and srv.running
    ok = ok and jsonable(srv.conn.out)
    tock("sync")
    return ok


# ------------------------------------------------------------------ (B) a real session at the byte level
def _frames(raw: bytes):
    """independent frame reader: Content-Length counts BYTES -> list of decoded JSON messages; raises on garbage"""
    out, pos = [], 0
    while pos < len(raw):
        end = raw.index(b"\r\n\r\n", pos)
        n = None
        for h in raw[pos:end].split(b"\r\n"):
            k, _, v = h.partition(b":")
            if k.strip().lower() == b"content-length":
                n = int(v.strip())
        body = raw[end + 4:end + 4 + n]
        if len(body) != n:
            raise ValueError("truncated frame")
        out.append(json.loads(body.decode("utf-8")))
        pos = end + 4 + n
    return out


SESSION_NAMES = ["x", "déjà", "日本", "\U0001f600", "a\"b\\c"]


def session(pos: int, name: int, extra: int) -> bool:
    """a real server behind the real JSONRPC2Connection / ReadWriter over byte buffers, real handlers (initialize
    included, with the process pool replaced by an in-process stand-in): requests initialize, an unknown method whose
    name holds non-ASCII text (echoed in the error), hover on an unknown document, documentSymbol, shutdown - with a
    SECOND initialize request inserted at position `pos` and `extra` repeated requests - then exit.  Read back with
    an independent byte-level frame reader: every frame decodes, every request id has exactly one response, in order
    pre: 0 <= pos <= 4 and 0 <= name < len(SESSION_NAMES) and 0 <= extra <= 2
    post: _
    """
    import io

    from crosshair.tracers import NoTracing

    from lib.hx import conc

    tick("session")
    pos, name, extra = conc(pos, 0, 4), conc(name, 0, len(SESSION_NAMES) - 1), conc(extra, 0, 2)
    ok = True
    with NoTracing():
        import fortls.langserver as L
        from fortls.jsonrpc import JSONRPC2Connection, ReadWriter
        from lib import ws

        root = {"rootPath": "/nonexistent_verif_root"}
        doc = {"textDocument": {"uri": "file:///nonexistent_verif_root/a.f90"}, "position": {"line": 0, "character": 0}}
        msgs = [("initialize", root), ("unknown/" + SESSION_NAMES[name], {}), ("textDocument/hover", doc),
                ("textDocument/documentSymbol", doc), ("shutdown", {})]
        msgs.insert(pos + 1, ("initialize", root))
        for e in range(extra):
            msgs.insert(2 + e, msgs[1 + e])
        reqs = [{"jsonrpc": "2.0", "id": i + 1 if i % 2 == 0 else f"s{i}", "method": m, "params": p} for i, (m, p) in enumerate(msgs)]
        reqs.insert(3, {"jsonrpc": "2.0", "method": "initialized", "params": {}})  # a notification: no response
        reqs.append({"jsonrpc": "2.0", "method": "exit", "params": {}})
        raw_in = b""
        for r in reqs:
            b = json.dumps(r, ensure_ascii=False).encode("utf-8")
            raw_in += b"Content-Length: %d\r\n\r\n" % len(b) + b
        out = io.BytesIO()
        srv = LangServer(JSONRPC2Connection(ReadWriter(io.BytesIO(raw_in), out)),
                         vars(cli("fortls").parse_args(["--disable_autoupdate", "--nthreads", "1"])))
        old = L.Pool
        L.Pool = ws._InProcessPool
        try:
            srv.run()
        finally:
            L.Pool = old
        try:
            got = _frames(out.getvalue())
        except Exception as e:  # noqa: BLE001
            FAILS.append(f"output stream not decodable frame by frame: {type(e).__name__} {e}")
            got = None
        if got is None:
            ok = False
        else:
            ids = [m["id"] for m in got if "id" in m and ("result" in m or "error" in m)]
            want = [r["id"] for r in reqs if "id" in r]
            if ids != want:
                FAILS.append(f"response ids {ids}, request ids {want}")
                ok = False
    tock("session")
    return ok


FAILS = []
