"""C18 - exactly the configured source files are indexed at start-up.

Real code executed: LangServer._get_source_files, _add_source_dirs, _load_config_file_dirs (suffix regex rebuild),
create_src_file_exts_str; os.listdir / os.walk / os.path.isfile inside fortls.langserver are redirected to a
symbolic in-memory tree.

Symbolic: which entries each of three directories contains (bit masks), which directories are source directories,
which paths are excluded, which suffixes are excluded / additionally included.  Oracle: the set algebra stated
by the property, with an independent implementation of the documented suffix rule.
"""
import os

from crosshair.tracers import NoTracing

from lib.hx import conc, npart, part, silence, tick, tock

silence()

import fortls.langserver as L  # noqa: E402
from fortls.interface import cli  # noqa: E402
from fortls.langserver import LangServer  # noqa: E402
from fortls.regex_patterns import create_src_file_exts_str  # noqa: E402

PART, NPART = part(), npart()
THOROUGH = os.environ.get("VERIF_TIER", "quick") == "thorough"
ROOT = "/fs"
DIRS = [ROOT, ROOT + "/util", ROOT + "/util/deep"]
# candidate entries per directory (files unless marked dir); look-alikes, mixed case, prefix-sharing names
ENT = ["a.f90", "io.f", "io.f90", "util.f90", "b.F", "c.f9", "d.f90.bak", "e.FoR", "x.inc", "README", "g.Fpp", "a.f90.F90"]
NE = len(ENT)
DEFAULT = ("f", "f77", "f90", "f95", "f03", "f05", "f08", "f18", "for", "fpp")
INCL = [[], [".inc"], [".bak", ".f9"]]
EXCL_SUF = [[], [".F"], ["90", ".inc"], [".f90.bak"]]
# exclusion candidates: a directory, files, and a file whose path is a prefix of another file's path
EXCL_PATHS = [ROOT + "/util", ROOT + "/io.f", ROOT + "/util/a.f90", ROOT + "/util/deep", ROOT + "/a.f90"]
TREE = {}


class _Path:
    def __getattr__(self, n):
        return getattr(os.path, n)

    @staticmethod
    def isfile(p):
        d, f = os.path.split(p)
        return d in TREE and f in TREE[d] and (d + "/" + f) not in TREE

    @staticmethod
    def isdir(p):
        return p in TREE


class _OS:
    path = _Path()

    def __getattr__(self, n):
        return getattr(os, n)

    @staticmethod
    def listdir(d):
        return list(TREE[d])

    @staticmethod
    def walk(top):
        stack = [top]
        while stack:
            d = stack.pop()
            names = TREE.get(d, [])
            dirs = [n for n in names if d + "/" + n in TREE]
            files = [n for n in names if d + "/" + n not in TREE]
            yield d, dirs, files
            stack.extend(d + "/" + n for n in dirs)


L.os = _OS()
SRV = LangServer(None, vars(cli("fortls").parse_args([])))
SRV.root_path = ROOT


def is_source(name: str, incl) -> bool:
    low = name.lower()
    return any(low.endswith("." + s) for s in DEFAULT) or any(name.endswith(s) for s in incl)


def build_tree(m0: int, m1: int, m2: int):
    TREE.clear()
    TREE[DIRS[0]] = [ENT[i] for i in range(NE) if m0 >> i & 1] + ["util"]
    TREE[DIRS[1]] = [ENT[i] for i in range(NE) if m1 >> i & 1] + ["deep"]
    TREE[DIRS[2]] = [ENT[i] for i in range(NE) if m2 >> i & 1]


def check_config(sd_mask, ex_mask, incl, excl_suf):
    srv = SRV
    srv.source_dirs = {DIRS[i] for i in range(3) if sd_mask >> i & 1}
    srv.excl_paths = {EXCL_PATHS[i] for i in range(len(EXCL_PATHS)) if ex_mask >> i & 1}
    srv.incl_suffixes = set(incl)
    srv.excl_suffixes = set(excl_suf)
    srv.FORTRAN_SRC_EXT_REGEX = create_src_file_exts_str(srv.incl_suffixes)
    got = srv._get_source_files()
    want = set()
    for d in srv.source_dirs:
        for f in TREE[d]:
            p = d + "/" + f
            if p in TREE:
                continue
            if is_source(f, incl) and p not in srv.excl_paths and not any(f.endswith(x) for x in excl_suf):
                want.add(p)
    if set(got) != want or len(got) != len(set(got)):
        return f"files {sorted(got)} expected {sorted(want)} (dirs {sorted(srv.source_dirs)} excl {sorted(srv.excl_paths)} incl {incl} exsuf {excl_suf} tree {TREE})"
    # default source directories: every directory under the root that directly contains a source file
    srv.source_dirs = {ROOT}
    srv._add_source_dirs()
    wantd = set()
    for d in DIRS:
        files = [f for f in TREE[d] if d + "/" + f not in TREE]
        if any(is_source(f, incl) for f in files) and d not in srv.excl_paths:
            wantd.add(d)
    if srv.source_dirs != wantd:
        return f"source dirs {sorted(srv.source_dirs)} expected {sorted(wantd)} (excl {sorted(srv.excl_paths)} incl {incl} tree {TREE})"
    return None


FAIL = []
MASKS = [0, 0b1, 0b110, 0b1001, 0b110000, 0b111000000, 0b100000000001, 0b1111, 0b111111111111]


def files(a0: int, a1: int, sd: int) -> bool:
    """contents of the root and of the first sub-directory (9 masks each) and the source_dirs subset are symbolic;
    the contents of the deepest directory, the additional / excluded suffixes and all 32 exclusion-path subsets
    are enumerated inside: indexed set == prescribed set
    pre: 0 <= a0 < len(MASKS) and 0 <= a1 < len(MASKS) and 0 <= sd <= 7 and (a0 * 3 + a1 + sd) % NPART == PART
    post: _
    """
    tick("files")
    a0, a1, sd = conc(a0, 0, len(MASKS) - 1), conc(a1, 0, len(MASKS) - 1), conc(sd, 0, 7)
    ok = True
    with NoTracing():
        for a2 in (range(len(MASKS)) if THOROUGH else (0, 3, 8)):
            build_tree(MASKS[a0], MASKS[a1], MASKS[a2])
            for inc in range(len(INCL)):
                for exs in range(len(EXCL_SUF)):
                    for ex in range(1 << len(EXCL_PATHS)):
                        msg = check_config(sd, ex, INCL[inc], EXCL_SUF[exs])
                        if msg:
                            FAIL.append(msg)
                            ok = False
                            break
                    if not ok:
                        break
                if not ok:
                    break
            if not ok:
                break
    tock("files")
    return ok
