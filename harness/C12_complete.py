"""C12 - completion offers exactly the accessible names matching the typed prefix.

Real code executed through the real server: serve_autocomplete (get_candidates, child_candidates, prefix filter,
type masks per context), get_line_context, get_use_tree, climb_type_tree, Type.get_children (inherited members),
Scope.get_children(public_only).

(W) the worlds of lib/world.py (accessibility forms x USE/ONLY/rename/re-export x local/host declarations): at every
    use site and for every non-empty prefix of the identifier, the user-declared labels offered == the names the
    reference resolver makes accessible there that start with the prefix; CALL context: callable ones only.
(U) USE / USE..ONLY contexts.  (T) member access chains (own + inherited components), TYPE( context.
Intrinsic / keyword items are ignored by the comparison (universe = user-declared names of the world).
"""
import os

from crosshair.tracers import NoTracing

from lib.hx import conc, kf_active, npart, part, silence, tick, tock

silence()
from lib import ws  # noqa: E402
from lib.world import W, R  # noqa: E402
import harness.C05_resolve as C5  # noqa: E402

PART, NPART = part(), npart()
THOROUGH = os.environ.get("VERIF_TIER", "quick") == "thorough"
SRV = ws.make_server(("--incremental_sync", "--disable_autoupdate"))
FAIL = []
UNIVERSE = {"a", "b", "c", "d", "y", "z", "ex", "inner", "main", "m1", "m2"}
KF_REEXPORT = kf_active("C05-reexport-private-default")
VIS = C5.VIS


def accessible(w: W, scope: str):
    """{local name: entity} accessible at `scope` (main / inner), per the reference resolver"""
    names = {}
    for n in ("a", "b", "c", "d", "y", "z", "ex"):
        e = w.resolve(scope, n)
        if e not in (None, "AMBIGUOUS"):
            names[n] = e
    names["inner"] = "main:inner"  # the internal procedure is accessible in main and in itself (host association)
    return names


def labels(srv, path, line, col):
    r = ws.request(srv, "textDocument/completion", path, line, col)
    if r[0] != "resp":
        return None, r
    return sorted({i["label"].lower() for i in (r[1] or [])}), r


def check_world(w: W):
    files = w.files()
    if not w.conforming():
        return None
    srv = ws.reset(SRV, files)
    imported_m2 = w.names_m2()[1]
    for path, line, col, name, scope in w.sites:
        if scope not in ("main", "inner"):
            continue
        acc = accessible(w, scope)
        text = files[path].split("\n")[line]
        is_call = text.strip().startswith("call")
        for p in range(1, len(name) + 1):
            prefix = name[:p]
            got, raw = labels(srv, path, line, col + p)
            if got is None:
                return f"completion error {raw} at {path}:{line}:{col + p}"
            got_u = {g for g in got if g in UNIVERSE}
            want = {n for n in acc if n.startswith(prefix)}
            if is_call:
                want = {n for n in want if acc[n] in ("m1:c", "m1:ex", "main:inner")}
            if KF_REEXPORT and w.m2_private and w.target == "m2":
                got_u -= {n for n in imported_m2 if n not in want}  # known finding C05-reexport-private-default
            if got_u != want:
                return (f"prefix '{prefix}' at {scope} site {path}:{line}:{col + p} ({text.strip()!r}): offered {sorted(got_u)} "
                        f"accessible {sorted(want)}\n" + C5.dump(files))
    return None


def worlds(va: int, u21: int, up: int) -> bool:
    """same world parameters as C05.W: at every use site and every non-empty prefix the offered user-declared
    names are exactly the accessible ones with that prefix
    pre: 0 <= va <= 4 and 0 <= u21 <= 3 and 0 <= up <= 5 and (va * 7 + u21 * 3 + up) % NPART == PART
    post: _
    """
    tick("worlds")
    va, u21, up = conc(va, 0, 4), conc(u21, 0, 3), conc(up, 0, 5)
    ok = True
    with NoTracing():
        for m1p in (False, True):
            for vb in ((0, -1, 2) if THOROUGH else (0, -1)):
                for m2p in (False, True):
                    for m2pub in (False, True):
                        for target in ("m1", "m2"):
                            for la, su in ((0, 0), (1, 0), (2, 0), (3, 0), (0, 1), (2, 1)):
                                for vex in ((0, 2) if m1p else (0, -2)):
                                    w = W(m1p, VIS[va], vb, 0, u21, m2p, m2pub, target, up, la, su, vis_ex=vex)
                                    msg = check_world(w)
                                    if msg:
                                        FAIL.append(msg)
                                        ok = False
                                        break
                                if not ok:
                                    break
                            if not ok:
                                break
                        if not ok:
                            break
                    if not ok:
                        break
                if not ok:
                    break
            if not ok:
                break
    tock("worlds")
    return ok


# ------------------------------------------------------------------------------------ contexts
TYPES = C5.TYPES
LEAF = {"lx", "inner", "nxt", "mx", "bx", "shared"}
MID = {"mx", "bx", "shared"}
BASE = {"bx", "shared"}
OTHER = {"bx", "leaf"}
CTX = [
    ("  o%", LEAF, None), ("  x = o%inner%", BASE, None), ("  call s(w%leaf%nxt%", MID, None), ("  w%", OTHER, None),
    ("  arr(2)%", LEAF, None), ("  o % nxt % ", MID, None), ("  x = o%b", {"bx"}, None), ("  o%s", {"shared"}, None),
    ("  w%leaf%l", {"lx"}, None), ("  o%zz", set(), None),
    ("  use t", {"tm"}, {"tm", "p", "um"}), ("  use u", {"um"}, {"tm", "p", "um"}), ("  use ", None, None),
    ("  use um, only: p", {"pub1", "pub2"}, {"pub1", "pub2", "hid", "hid2"}),
    ("  use um, only: pub1, h", set(), {"pub1", "pub2", "hid", "hid2"}),
    ("  type(l", {"leaf_t"}, {"leaf_t", "mid_t", "base_t", "other_t", "o", "w", "arr", "lvar"}),
    ("  class(b", {"base_t"}, {"leaf_t", "mid_t", "base_t", "other_t", "o", "w", "arr", "bvar"}),
    ("  call s", {"s", "sub2"}, {"s", "sub2", "svar", "sfun"}),
    ("  if (i > 0) call s", {"s", "sub2"}, {"s", "sub2", "svar", "sfun"}),
    ("  if (arr(1)%lx > (i)) call su", {"sub2"}, {"s", "sub2", "svar", "sfun"}),
    ("  if (i > 0) i = s", {"s", "sub2", "svar", "sfun"}, {"s", "sub2", "svar", "sfun"}),
]
UM = "module um\n  private\n  integer, public :: pub1\n  real :: hid\n  public :: pub2\n  integer :: pub2, hid2\nend module um\n"


def contexts(k: int) -> bool:
    """completion contexts: member access chains (own + inherited components, exactly those), USE (modules only),
    USE..ONLY (public members of that module only), TYPE(/CLASS( (derived types only), CALL (callable only)
    pre: 0 <= k < len(CTX)
    post: _
    """
    tick("contexts")
    k = conc(k, 0, len(CTX) - 1)
    ok = True
    with NoTracing():
        line, want, universe = CTX[k]
        prog = ("program p\n  use tm\n  type(leaf_t) :: o, arr(3)\n  type(other_t) :: w\n  integer :: i, svar, lvar, bvar\n"
                + line + "\ncontains\n  subroutine s(q)\n  end subroutine s\n  subroutine sub2()\n  end subroutine sub2\n"
                  "  integer function sfun()\n  end function sfun\nend program p\n")
        srv = ws.reset(SRV, {f"{R}/tm.f90": TYPES, f"{R}/um.f90": UM, f"{R}/p.f90": prog})
        got, raw = labels(srv, f"{R}/p.f90", 5, len(line))
        if want is None:
            ok = raw[0] == "resp"
        elif got is None:
            ok = False
        else:
            if universe is None:
                universe = LEAF | MID | BASE | OTHER | {"zz"}
            got_u = {g for g in got if g in universe}
            ok = got_u == want
            if universe is not None and line.lstrip().startswith(("o", "x", "w", "a", "c")) and "%" in line:
                ok = ok and set(got) == want  # after '%' nothing but the components may be offered
        if not ok:
            FAIL.append(f"context {line!r}: offered {got} expected {want}")
    tock("contexts")
    return ok


# ------------------------------------------------------------------------------------ submodule ancestry
SM_M = ("module smm\n  integer :: mvar\n  integer, private :: mpriv\n  interface\n    module subroutine wproc()\n    end subroutine wproc\n"
        "  end interface\nend module smm\n")
SM_1 = "submodule (smm) sub1\n  integer :: s1var\ncontains\n  subroutine s1helper()\n  end subroutine s1helper\nend submodule sub1\n"
SM_2 = ("submodule (smm:sub1) sub2\n  integer :: s2var\ncontains\n  module subroutine wproc()\n    integer :: q\n    q = {}\n"
        "  end subroutine wproc\nend submodule sub2\n")
SM_O = "submodule (smm) other\n  integer :: ovar\nend submodule other\n"
SM_NAMES = {"mvar": "smm.f90", "mpriv": "smm.f90", "s1var": "sub1.f90", "s1helper": "sub1.f90", "s2var": "sub2.f90", "q": "sub2.f90",
            "wproc": None, "ovar": None}


def submods(n: int, plen: int) -> bool:
    """a submodule of a submodule (SUBMODULE (m:parent) name): inside its procedure every entity of the submodule, of
    its parent submodule and of the ancestor module (private ones included: host association) is offered for every
    prefix and resolves to its declaration; entities of a sibling submodule are not.  The outline names the unit.
    pre: 0 <= n < len(SM_NAMES) and 1 <= plen <= 8
    post: _
    """
    tick("submods")
    n, plen = conc(n, 0, len(SM_NAMES) - 1), conc(plen, 1, 8)
    ok = True
    with NoTracing():
        name = sorted(SM_NAMES)[n]
        if plen <= len(name):
            prefix = name[:plen]
            files = {f"{R}/smm.f90": SM_M, f"{R}/sub1.f90": SM_1, f"{R}/other.f90": SM_O, f"{R}/sub2.f90": SM_2.format(prefix)}
            for order in (list(files), list(reversed(list(files)))):
                srv = ws.reset(SRV, {k: files[k] for k in order})
                got, raw = labels(srv, f"{R}/sub2.f90", 5, 8 + plen)
                want = {x for x in SM_NAMES if x.startswith(prefix) and x != "ovar"}
                got_u = None if got is None else {g for g in got if g in SM_NAMES}
                if got_u != want:
                    FAIL.append(f"nested submodule, prefix {prefix!r}: offered {got_u} accessible {want}")
                    ok = False
                r = ws.request(srv, "textDocument/documentSymbol", f"{R}/sub2.f90", 0, 0)
                if r[0] != "resp" or not any(s_["name"].lower() == "sub2" for s_ in r[1]):
                    FAIL.append(f"outline of sub2.f90 does not list sub2: {r}")
                    ok = False
                if plen == len(name) and SM_NAMES[name]:
                    d = ws.request(srv, "textDocument/definition", f"{R}/sub2.f90", 5, 8 + plen - 1)
                    if d[0] != "resp" or not d[1] or not d[1]["uri"].endswith("/" + SM_NAMES[name]):
                        FAIL.append(f"nested submodule: definition of {name} -> {d}")
                        ok = False
    tock("submods")
    return ok
