"""C16 - wire framing byte-exact in both directions.

Real code executed symbolically: JSONRPC2Connection._send / write_response /
write_error / send_notification / _receive / _read_header_content_length /
read_message, write_rpc_request / write_rpc_notification, ReadWriter,
path_to_uri / path_from_uri.

Stubs (part of the claim):
  * json.dumps -> returns a FREE symbolic string `bd` (any Unicode, len<=4);
    the stub records the ensure_ascii argument of the call site: when the call
    site keeps the default (True) the stdlib contract says the result is
    ASCII, so paths with non-ASCII `bd` are discarded; when a call site passes
    ensure_ascii=False any `bd` is possible.  json.loads -> identity.
  * the transport in W/R is a character stream whose read(n) consumes exactly
    n UTF-8 *bytes* (contract of BufferedReader.read(n) + decode); the real
    ReadWriter over BytesIO is exercised in T on token strings.
"""
import io

import os

from lib.hx import conc, npart, part, silence, tick, tock

silence()

import fortls.jsonrpc as J  # noqa: E402
from fortls.jsonrpc import JSONRPC2Connection, ReadWriter, path_from_uri, path_to_uri  # noqa: E402


PART, NPART = part(), npart()
THOROUGH = os.environ.get("VERIF_TIER", "quick") == "thorough"
RB1, UN = (3, 3) if THOROUGH else (2, 2)


def utf8_len(s: str) -> int:
    n = 0
    for ch in s:
        o = ord(ch)
        n += 1 if o < 0x80 else 2 if o < 0x800 else 3 if o < 0x10000 else 4
    return n


class _JsonStub:
    """stands in for the json module inside fortls.jsonrpc"""

    def __init__(self):
        self.bd = ""
        self.ensure_ascii = []

    def dumps(self, obj, *a, ensure_ascii=True, **k):
        if k.get("indent") is not None:  # the debug-log rendering, not the wire body
            return "log"
        self.ensure_ascii.append(ensure_ascii)
        return self.bd

    def loads(self, s, *a, **k):
        return s


STUB = _JsonStub()
J.json = STUB
J.log.disabled = True


class _Capture:
    def __init__(self):
        self.out = []

    def write(self, s):
        self.out.append(s)


def _frame_ok(frame: str, bd: str) -> bool:
    """independent reader of one frame given as text: header value == BYTE length of body"""
    sep = frame.find("\r\n\r\n")
    if sep < 0:
        return False
    head, body = frame[:sep], frame[sep + 4:]
    length = None
    for ln in head.split("\r\n"):
        if ln.startswith("Content-Length: "):
            v = ln[len("Content-Length: "):]
            if not v.isdigit():
                return False
            length = int(v)
        elif ":" not in ln:
            return False
    return length is not None and length == utf8_len(body) and body == bd


def send(kind: int, bd: str) -> bool:
    """W: every writer frames `bd` with its byte length
    pre: 0 <= kind <= 4 and len(bd) <= 4
    post: _
    """
    tick("send")
    cap = _Capture()
    c = JSONRPC2Connection(cap)
    STUB.bd = bd
    STUB.ensure_ascii = []
    if kind == 0:
        c.write_response(1, {"x": 1})
        frame = cap.out[0]
    elif kind == 1:
        c.write_error(1, -32603, "m", data={"traceback": "t"})
        frame = cap.out[0]
    elif kind == 2:
        c.send_notification("window/showMessage", {"type": 1, "message": "m"})
        frame = cap.out[0]
    elif kind == 3:
        frame = J.write_rpc_request(1, "m", {})
    else:
        frame = J.write_rpc_notification("m", {})
    if len(STUB.ensure_ascii) != 1:
        return False
    if STUB.ensure_ascii[0] and not bd.isascii():
        return True  # excluded by the stdlib contract of json.dumps(ensure_ascii=True)
    ok = _frame_ok(frame, bd) and (kind > 2 or len(cap.out) == 1)
    tock("send")
    return ok


class _CharStream:
    """text stream with byte-accurate read(n): model of ReadWriter over a BufferedReader"""

    def __init__(self, text: str):
        self.t = text
        self.i = 0

    def readline(self):
        j = self.t.find("\n", self.i)
        if j < 0:
            j = len(self.t) - 1
        ln = self.t[self.i:j + 1]
        self.i = j + 1
        return ln

    def read(self, n=None):
        if n is None:
            r = self.t[self.i:]
            self.i = len(self.t)
            return r
        k = self.i
        got = 0
        while k < len(self.t) and got < n:
            got += utf8_len(self.t[k])
            k += 1
        if got != n and k < len(self.t):
            raise UnicodeDecodeError("utf-8", b"", 0, 1, "read split a character")
        r = self.t[self.i:k]
        self.i = k
        return r


def _mkframe(body: str, order: int, extra: bool) -> str:
    """independent writer: header order and an optional extra header are free"""
    cl = "Content-Length: " + str(utf8_len(body)) + "\r\n"
    ct = "Content-Type: application/vscode-jsonrpc; charset=utf-8\r\n"
    ex = "X-Other: 1\r\n" if extra else ""
    if order == 0:
        h = cl + ct + ex
    elif order == 1:
        h = ct + cl + ex
    elif order == 2:
        h = ct + ex + cl
    else:
        h = cl
    return h + "\r\n" + body


BTOK = ["a", "é", "€", "\U0001F600", "\n", "\r\n", "{", "Content-Length: 1\r\n"]
B2 = ["", "z", "é\n"]


def recv(n: int, t0: int, t1: int, t2: int, o1: int, x1: bool, j: int, o2: int) -> bool:
    """R: two back-to-back frames, any header order, are decoded into exactly the two bodies, then EOF.
    Bodies are token strings over 1/2/3/4-byte characters, line breaks and a look-alike header line.
    pre: 0 <= n <= RB1 and 0 <= t0 < len(BTOK) and 0 <= t1 < len(BTOK) and 0 <= t2 < len(BTOK)
    pre: 0 <= o1 <= 3 and 0 <= o2 <= 1 and 0 <= j < len(B2) and (t0 + o1) % NPART == PART
    post: _
    """
    tick("recv")
    o1, o2, j = conc(o1, 0, 3), conc(o2, 0, 1), conc(j, 0, len(B2) - 1)
    b1 = "".join(BTOK[conc(t, 0, len(BTOK) - 1)] for t in [t0, t1, t2][:n])
    b2 = B2[j]
    stream = _CharStream(_mkframe(b1, o1, x1) + _mkframe(b2, o2, False))
    c = JSONRPC2Connection(stream)
    m1 = c.read_message()
    m2 = c.read_message()
    try:
        c.read_message()
        eof = False
    except EOFError:
        eof = True
    ok = m1 == b1 and m2 == b2 and eof
    tock("recv")
    return ok


def recv_trunc(t0: int, n: int, cut: int) -> bool:
    """R2: a stream that ends anywhere inside a frame terminates (EOFError / protocol error), never loops; body = n
    copies of a token (1..4-byte characters, LF, brace, blank) - the header parser now splits header lines at ':' and
    folds case, which on a FREE symbolic body made the path space explode, so the body is picked by forked indices
    pre: 0 <= t0 < len(TOKS) and 0 <= n <= 2 and 0 <= cut <= 70
    post: _
    """
    tick("recv_trunc")
    b1 = TOKS[conc(t0, 0, len(TOKS) - 1)] * conc(n, 0, 2)
    full = _mkframe(b1, 1, False)
    cut = conc(cut, 0, 70)
    if cut >= len(full) - len(b1):
        return True
    stream = _CharStream(full[:cut])
    calls = [0]
    orig = stream.readline

    def counted():
        calls[0] += 1
        if calls[0] > 50:
            raise RuntimeError("unbounded header loop on truncated input")
        return orig()

    stream.readline = counted
    c = JSONRPC2Connection(stream)
    try:
        c.read_message()
    except (EOFError, J.JSONRPC2ProtocolError):
        pass
    ok = calls[0] <= 50
    tock("recv_trunc")
    return ok


TOKS = ["a", "é", "€", "\U0001F600", "\n", "{", " "]


def transport(n: int, t0: int, t1: int, t2: int) -> bool:
    """T: the real ReadWriter over BytesIO: written bytes are UTF-8, read(n bytes)/readline decode them back
    pre: 0 <= n <= 3 and 0 <= t0 < len(TOKS) and 0 <= t1 < len(TOKS) and 0 <= t2 < len(TOKS)
    post: _
    """
    tick("transport")
    s = "".join(TOKS[conc(t, 0, len(TOKS) - 1)] for t in [t0, t1, t2][:n])
    w = io.BytesIO()
    ReadWriter(None, w).write(s)
    raw = w.getvalue()
    ok = raw == s.encode("utf-8")
    rw = ReadWriter(io.BytesIO(raw + b"\r\nrest"), None)
    ok = ok and rw.read(len(raw)) == s and rw.readline() == "\r\n" and rw.read(4) == "rest"
    tock("transport")
    return ok


def transport_big(k: int, delta: int, t: int) -> bool:
    """T2: a multi-byte character straddling a power-of-two byte offset (buffer-size boundaries 1 KiB..64 KiB)
    of a large body is read back intact by the real ReadWriter and by read_message
    pre: 10 <= k <= 16 and -4 <= delta <= 1 and 1 <= t <= 3
    post: _
    """
    tick("transport_big")
    k, delta, t = conc(k, 10, 16), conc(delta, -4, 1), conc(t, 1, 3)
    s = "a" * ((1 << k) + delta) + TOKS[t] + "b"
    raw = s.encode("utf-8")
    rw = ReadWriter(io.BytesIO(raw + b"zz"), None)
    ok = rw.read(len(raw)) == s and rw.read(2) == "zz"
    frame = ("Content-Length: %d\r\n\r\n" % len(raw)).encode() + raw
    c = JSONRPC2Connection(ReadWriter(io.BytesIO(frame + frame), io.BytesIO()))
    ok = ok and c.read_message() == s and c.read_message() == s
    tock("transport_big")
    return ok


class _Chunky(io.RawIOBase):
    """a raw stream that delivers at most `k` bytes per read call (what a pipe does)"""

    def __init__(self, data: bytes, k: int):
        self.data, self.k, self.pos = data, k, 0

    def readable(self):
        return True

    def readinto(self, b):
        n = min(len(b), self.k, len(self.data) - self.pos)
        b[:n] = self.data[self.pos:self.pos + n]
        self.pos += n
        return n


def main_wiring(k: int, t: int, n: int) -> bool:
    """fortls.main() wires the connection to a stream on which read(n) delivers n bytes however the bytes arrive:
    stdin is replaced by a buffered reader over a raw stream that yields at most k bytes per call; the connection
    built by the real main() must decode two frames (multi-byte body) exactly
    pre: 1 <= k <= 7 and 1 <= t <= 3 and 0 <= n <= 3
    post: _
    """
    tick("main_wiring")
    k, t, n = conc(k, 1, 7), conc(t, 1, 3), conc(n, 0, 3)
    from crosshair.tracers import NoTracing

    with NoTracing():  # main() builds a full LangServer (loads the intrinsic tables): run it at native speed
        ok = _main_wiring(k, t, n)
    tock("main_wiring")
    return ok


def _main_wiring(k, t, n):
    import sys

    import fortls

    body = ("x" * n + TOKS[t] + "yz")
    raw = body.encode("utf-8")
    frame = ("Content-Length: %d\r\n\r\n" % len(raw)).encode() + raw
    chunky = _Chunky(frame + frame, k)

    class _Stdin:
        buffer = io.BufferedReader(chunky, buffer_size=16)

    class _Stdout:
        buffer = io.BytesIO()

    got = []

    def fake_run(self):
        got.append(self.conn.read_message())
        got.append(self.conn.read_message())

    real_run, real_in, real_out, real_argv = fortls.LangServer.run, sys.stdin, sys.stdout, sys.argv
    fortls.LangServer.run = fake_run
    sys.stdin, sys.stdout, sys.argv = _Stdin(), _Stdout(), ["fortls", "--disable_autoupdate"]
    try:
        fortls.main()
    finally:
        fortls.LangServer.run = real_run
        sys.stdin, sys.stdout, sys.argv = real_in, real_out, real_argv
    return got == [body, body]


PTOK = ["a", " ", "%", "#", "é", "?", "%41", "+", "€", "&", "=", "~", "(", "'", "b.f90"]


def uri(n: int, t0: int, t1: int, t2: int, t3: int, d: int) -> bool:
    """U: file URIs round-trip to paths for any path characters
    pre: 1 <= n <= UN and 0 <= d <= 2 and t0 % NPART == PART
    pre: 0 <= t0 < len(PTOK) and 0 <= t1 < len(PTOK) and 0 <= t2 < len(PTOK) and 0 <= t3 < len(PTOK)
    post: _
    """
    tick("uri")
    toks = [PTOK[conc(t, 0, len(PTOK) - 1)] for t in [t0, t1, t2, t3][:n]]
    d = conc(d, 0, 2)
    name = "".join(toks)
    if name.strip() != name or name == "":
        pass
    path = ("/nonexistent_root_" + "/d" * d) + "/" + name
    if path.endswith(" "):
        return True  # outside: trailing blank segment
    u = path_to_uri(path)
    ok = u.startswith("file://") and u.isascii() and path_from_uri(u) == path
    tock("uri")
    return ok
