"""C17 - indexing never executes or writes anything on behalf of file contents.

Real code executed: preprocess_file / eval_pp_if / eval_pp_expr, FortranFile.parse, and the real server
(didOpen -> index, diagnostics, a few queries) on documents whose #if conditions, macro values, initial
definitions (pp_defs from the configuration) and INCLUDE/USE names are built from a table of hostile tokens.

Monitors: builtins eval / exec / compile (allowed only with the AST-only flag) and __import__ of modules that are
not already loaded are rebound to recorders for the duration of the run; os.system / os.popen / subprocess.Popen /
os.remove / os.unlink / os.rename / os.mkdir / os.makedirs / shutil.rmtree and open() with a write mode likewise.
Oracle: no monitor fires - or, for eval/exec/compile, the text handed over lies in the safe expression language
(integer/boolean literals, and/or/not, comparisons, arithmetic, parentheses), membership decided by z3.
"""
import ast as _ast
import builtins
import os
import subprocess
import shutil
import sys

from crosshair.tracers import NoTracing

from lib.hx import conc, npart, part, silence, tick, tock

silence()
from lib import rx, ws  # noqa: E402

import fortls.parsers.internal.include  # noqa: E402,F401  (lazily imported by find_in_scope)
from fortls.parsers.internal.parser import FortranFile, preprocess_file  # noqa: E402

PART, NPART = part(), npart()
THOROUGH = os.environ.get("VERIF_TIER", "quick") == "thorough"
SRV = ws.make_server()

HOST = ["__import__('os')", ".", "(", ")", "getpid()", "system('x')", "1", " ", "&&", "==", "X", "defined", "ｌｅｎ",
        "'ab'", "[]", "().__class__", "lambda:0", ",", "open('/tmp/verif_c17_marker','w')", "exec('1')", "eval('1')", "!",
        "||", "print", "Y", "0", "＿＿import＿＿('os')", "__builtins__", "{}", ":", "if", "else"]
NH = len(HOST)
SAFE = rx.star(rx.alt(rx.chars(" ()0123456789<>=!+-*/%&|^~"), rx.lit("and"), rx.lit("or"), rx.lit("not"),
                      rx.lit("True"), rx.lit("False")))

EVENTS = []
_ACTIVE = [False]
_orig = {}


def _is_safe_text(x) -> bool:
    return isinstance(x, str) and x.isascii() and rx.member(x, SAFE)


def _mon_eval(src, *a, **k):
    if _ACTIVE[0] and _IMPORTING[0] == 0 and not _is_safe_text(src):
        EVENTS.append(("eval", repr(src)[:80]))
    return _orig["eval"](src, *a, **k)


def _mon_exec(src, *a, **k):
    if _ACTIVE[0] and _IMPORTING[0] == 0:
        EVENTS.append(("exec", repr(src)[:80]))
    return _orig["exec"](src, *a, **k)


def _mon_compile(src, filename, mode, flags=0, *a, **k):
    if _ACTIVE[0] and _IMPORTING[0] == 0 and not (flags & _ast.PyCF_ONLY_AST) and not _is_safe_text(src):
        EVENTS.append(("compile", repr(src)[:80]))
    return _orig["compile"](src, filename, mode, flags, *a, **k)


_IMPORTING = [0]


def _mon_import(name, globals=None, locals=None, fromlist=(), level=0):
    """imports are legitimate when they are the package's own (relative, or absolute fortls.*) or already loaded;
    anything else during indexing is recorded.  compile/exec performed by the import machinery itself is not text
    taken from a source file: the nested monitors are muted while an allowed import runs."""
    pkg = (globals or {}).get("__package__") or ""
    own = (level > 0 and pkg.startswith("fortls")) or name.startswith("fortls") or name in sys.modules
    if _ACTIVE[0] and not own and _IMPORTING[0] == 0:
        EVENTS.append(("__import__", name))
    _IMPORTING[0] += 1
    try:
        return _orig["__import__"](name, globals, locals, fromlist, level)
    finally:
        _IMPORTING[0] -= 1


def _mon_open(file, mode="r", *a, **k):
    if _ACTIVE[0] and any(c in str(mode) for c in "wax+"):
        EVENTS.append(("open-write", str(file)[:80]))
        raise PermissionError("verif: write blocked")
    return _orig["open"](file, mode, *a, **k)


def _blocker(label):
    def f(*a, **k):
        if _ACTIVE[0]:
            EVENTS.append((label, repr(a)[:80]))
            raise PermissionError("verif: " + label + " blocked")
        return _orig[label](*a, **k)
    return f


def _install():
    for n, m in (("eval", _mon_eval), ("exec", _mon_exec), ("compile", _mon_compile), ("__import__", _mon_import), ("open", _mon_open)):
        _orig[n] = getattr(builtins, n)
        setattr(builtins, n, m)
    for mod, names in ((os, ["system", "popen", "remove", "unlink", "rename", "replace", "mkdir", "makedirs", "rmdir"]),
                       (subprocess, ["Popen", "run", "call", "check_output"]), (shutil, ["rmtree", "move", "copyfile"])):
        for n in names:
            label = f"{mod.__name__}.{n}"
            _orig[label] = getattr(mod, n)
            setattr(mod, n, _blocker(label))


def _uninstall():
    for n in ("eval", "exec", "compile", "__import__", "open"):
        setattr(builtins, n, _orig[n])
    for mod in (os, subprocess, shutil):
        for n in list(vars(mod)):
            label = f"{mod.__name__}.{n}"
            if label in _orig:
                setattr(mod, n, _orig[label])


def monitored(fn):
    """run fn() with the monitors armed; -> list of events"""
    del EVENTS[:]
    _install()
    _ACTIVE[0] = True
    try:
        fn()
    except Exception as e:  # totality is C03's business; a blocked sink surfaces in EVENTS
        if "verif:" in str(e):
            pass
    finally:
        _ACTIVE[0] = False
        _uninstall()
    return list(EVENTS)


def _docs(toks):
    text = "".join(toks)
    return [
        ["#if " + text, "integer :: a", "#endif"],
        ["#define X " + text, "#if X", "integer :: a", "#elif X && 1", "integer :: b", "#endif"],
        ["#define X(q) " + text, "#if X(1)", "integer :: a", "#endif", "y = X(" + text + ")"],
        ["#define Y 1", "#if 1 && " + text, "integer :: a", "#endif"],
        ["#if !defined(Z) && (" + text + ")", "integer :: a", "#endif"],
        ["#ifdef " + text, "#elif " + text, "#endif", "#include \"" + text + "\"", "include '" + text + "'", "use " + text],
    ]


def hostile(t0: int, via_defs: bool) -> bool:
    """conditions / macro values / names of <=3 hostile tokens starting with token t0, in 6 document templates,
    optionally also as initial definitions (pp_defs of the configuration): nothing is evaluated or written
    pre: 0 <= t0 < NH and t0 % NPART == PART
    post: _
    """
    tick("hostile")
    t0 = conc(t0, 0, NH - 1)
    via_defs = bool(via_defs)
    ok = True
    with NoTracing():
        rng = range(-1, NH)
        for t1 in rng:
            for t2 in ([-1] if (t1 == -1 or not THOROUGH) else rng):
                toks = [HOST[t0]] + ([HOST[t1]] if t1 >= 0 else []) + ([HOST[t2]] if t2 >= 0 else [])
                defs = {"X": "".join(toks), "Y": HOST[t0]} if via_defs else {}
                for lines in _docs(toks):
                    def run():
                        f = FortranFile("/x/h.F90")
                        f.set_contents(list(lines))
                        f.ast = f.parse(pp_defs=dict(defs))
                        f.check_file({})
                    ev = monitored(run)
                    if ev:
                        FAIL.append((lines, defs, ev))
                        ok = False
                        break
                if not ok:
                    break
            if not ok:
                break
    tock("hostile")
    return ok


FAIL = []


def server(t0: int, t1: int) -> bool:
    """the same through the real server: didOpen (index + diagnostics), documentSymbol, hover/completion/definition
    on the hostile line, didChange, didSave, didClose - with the monitors armed
    pre: 0 <= t0 < NH and 0 <= t1 < NH and (t0 + t1) % NPART == PART
    post: _
    """
    tick("server")
    t0, t1 = conc(t0, 0, NH - 1), conc(t1, 0, NH - 1)
    ok = True
    with NoTracing():
        toks = [HOST[t0], HOST[t1]]
        for lines in _docs(toks)[:3]:
            path = ws.ROOT + "/h.F90"

            def run():
                srv = ws.reset(SRV, {path: "\n".join(lines) + "\n"})
                ws.request(srv, "textDocument/documentSymbol", path, 0, 0)
                for meth in ("textDocument/hover", "textDocument/completion", "textDocument/definition", "textDocument/references"):
                    ws.request(srv, meth, path, 0, 9)
                    ws.request(srv, meth, path, 1, 4)
                srv.handle({"jsonrpc": "2.0", "method": "textDocument/didChange",
                            "params": {"textDocument": {"uri": ws.path_to_uri(path)}, "contentChanges": [{"text": "\n".join(lines) + "\nend\n"}]}})
                for m in ("textDocument/didSave", "textDocument/didClose"):
                    srv.handle({"jsonrpc": "2.0", "method": m, "params": {"textDocument": {"uri": ws.path_to_uri(path)}}})
            ev = monitored(run)
            if ev:
                FAIL.append((lines, ev))
                ok = False
                break
    tock("server")
    return ok


FIELDS = ["{langid.__class__.__mro__[1]}", "{0}", "{langid!r:>30}", "{langid.__class__.__init__.__globals__}", "{}", "{{x}}", "%(x)s %s",
          "${HOME} `id` $(id)"]


def _strings(x):
    if isinstance(x, str):
        yield x
    elif isinstance(x, dict):
        for v in x.values():
            yield from _strings(v)
    elif isinstance(x, (list, tuple)):
        for v in x:
            yield from _strings(v)


def docfields(k: int) -> bool:
    """documentation comments are data: replacement fields / format directives / shell syntax written in doc comments of
    variables, procedures and the specific procedures of a generic interface come back verbatim in hover, signature help
    and completion - never evaluated (attribute access through str.format), never an error
    pre: 0 <= k < len(FIELDS)
    post: _
    """
    tick("docfields")
    k = conc(k, 0, len(FIELDS) - 1)
    ok = True
    with NoTracing():
        fld = FIELDS[k]
        text = ("module dm\n  !> var doc " + fld + "\n  integer :: dv\n  interface gen\n    module procedure spec\n  end interface gen\ncontains\n"
                "  !> proc doc " + fld + "\n  subroutine spec(a)\n    integer :: a !< arg doc " + fld + "\n  end subroutine spec\n"
                "  subroutine user()\n    dv = 1\n    call gen(dv)\n    call spec(dv)\n  end subroutine user\nend module dm\n")
        path = ws.ROOT + "/dm.f90"
        lines = text.split("\n")

        def run():
            srv = ws.reset(SRV, {path: text})
            out = []
            for ln, word in ((12, "dv"), (13, "gen"), (14, "spec")):
                col = lines[ln].index(word) + 1
                for meth in ("textDocument/hover", "textDocument/completion"):
                    out.append(ws.request(srv, meth, path, ln, col))
            for ln in (13, 14):
                out.append(ws.request(srv, "textDocument/signatureHelp", path, ln, lines[ln].index("(") + 1))
            RES[:] = out
        ev = monitored(run)
        texts = [t for r in RES for t in _strings(r[1] if r and r[0] == "resp" else None)]
        bad = [r for r in RES if not r or r[0] != "resp"]
        evaluated = [t for t in texts if "<class" in t or "__globals__'" in t or "{'" in t]
        verbatim = sum(1 for t in texts if fld in t)
        if ev or bad or evaluated or verbatim < 3:
            FAIL.append((fld, ev, bad[:2], evaluated[:2], verbatim))
            ok = False
    tock("docfields")
    return ok


RES = []
