"""C20 - cyclic / self-referential structure never causes unbounded recursion.

Real code executed symbolically (end to end): the parser, update_workspace_file,
serve_onSave (resolve_includes / resolve_links: Type.resolve_inherit,
Variable/Method/Associate/Interface/Submodule.resolve_link), check_file with all
scope checks, and every positional handler at every identifier.

Symbolic: the catalogue shape, the number of nodes N, and the successor of each
node as an index into the node list - so every functional graph on N nodes,
hence every cycle length 1..N with every tail, is in the space.  The graph is
rendered to source text and indexed by the real server; links are therefore
exactly those the parser can produce.
"""
import os
import re

from crosshair.tracers import NoTracing

from lib.hx import conc, npart, part, tick, tock
from lib import ws

PART, NPART = part(), npart()
NMAX = 4 if os.environ.get("VERIF_TIER", "quick") == "thorough" else 3
NINIT = 12  # enumeration orders of a fresh server's workspace_init (all orders for <= 3 files; evenly spaced beyond)
SRV = ws.make_server()
SHAPES = ["use", "extends", "submodule", "pointer", "associate", "procptr", "binding", "include", "extends_files",
          "mixed", "include_multi", "dummy_iface", "include_in_proc", "use_ptr_cross", "include_nested"]
WORD = re.compile(r"[A-Za-z_]\w*")


def render(shape: str, n: int, succ):
    """-> {path: text}"""
    R = ws.ROOT
    if shape == "use":
        files = {}
        for i in range(n):
            body = [f"module m{i}", f"use m{succ[i]}", f"integer :: v{i}", "contains", f"subroutine s{i}()",
                    f"v{i} = v{succ[i]}", f"end subroutine s{i}", f"end module m{i}"]
            files[f"{R}/m{i}.f90"] = "\n".join(body) + "\n"
        return files
    if shape in ("extends", "extends_files"):
        mods = []
        for i in range(n):
            t = [f"type, extends(t{succ[i]}) :: t{i}", f"integer :: c{i}", "contains", f"procedure :: f => impl{i}",
                 f"end type t{i}"]
            mods.append(t)
        if shape == "extends":
            body = ["module m"] + [ln for t in mods for ln in t] + ["type(t0) :: o", "contains"]
            for i in range(n):
                body += [f"subroutine impl{i}(self)", f"class(t{i}) :: self", f"self%c{succ[i]} = 1", "call self%f()",
                         f"end subroutine impl{i}"]
            body += ["subroutine run()", "o%c0 = 2", "call o%f()", "end subroutine run", "end module m"]
            return {f"{R}/m.f90": "\n".join(body) + "\n"}
        files = {}
        for i in range(n):
            body = [f"module m{i}", f"use m{succ[i]}"] + mods[i] + ["contains", f"subroutine impl{i}(self)",
                                                                   f"class(t{i}) :: self", f"self%c{succ[i]} = 1",
                                                                   f"end subroutine impl{i}", f"end module m{i}"]
            files[f"{R}/m{i}.f90"] = "\n".join(body) + "\n"
        return files
    if shape == "submodule":
        files = {}
        for i in range(n):
            body = [f"submodule (s{succ[i]}) s{i}", f"integer :: a{i}", "contains", f"subroutine w{i}()",
                    f"a{i} = a{succ[i]}", f"end subroutine w{i}", f"end submodule s{i}"]
            files[f"{R}/s{i}.f90"] = "\n".join(body) + "\n"
        return files
    if shape == "pointer":
        body = ["program p"] + [f"integer, pointer :: x{i} => x{succ[i]}" for i in range(n)]
        body += [f"x{i} = x{succ[i]} + 1" for i in range(n)] + ["end program p"]
        return {f"{R}/p.f90": "\n".join(body) + "\n"}
    if shape == "associate":
        body = ["program p", "integer :: y"]
        body += ["associate (" + ", ".join(f"a{i} => a{succ[i]}" for i in range(n)) + ")"]
        body += [f"y = a{i}" for i in range(n)] + ["end associate", "end program p"]
        return {f"{R}/p.f90": "\n".join(body) + "\n"}
    if shape == "procptr":
        body = ["module m", "contains", "subroutine f()", "end subroutine f", "subroutine g()"]
        body += [f"procedure(f), pointer :: q{i} => q{succ[i]}" for i in range(n)]
        body += [f"call q{i}()" for i in range(n)] + ["end subroutine g", "end module m"]
        return {f"{R}/m.f90": "\n".join(body) + "\n"}
    if shape == "binding":
        body = ["module m", "type :: t", "contains"]
        body += [f"procedure :: b{i} => b{succ[i]}" for i in range(n)]
        body += [f"generic :: g{i} => b{i}, g{succ[i]}" for i in range(n)]
        body += ["end type t", "type(t) :: o", "contains", "subroutine run()"]
        body += [f"call o%b{i}()" for i in range(n)] + [f"call o%g{i}()" for i in range(n)]
        body += ["end subroutine run", "end module m"]
        return {f"{R}/m.f90": "\n".join(body) + "\n"}
    if shape == "include":
        files = {}
        for i in range(n):
            files[f"{R}/i{i}.f90"] = f"integer :: k{i}\ninclude 'i{succ[i]}.f90'\n"
        files[f"{R}/main.f90"] = "program p\ninclude 'i0.f90'\nk0 = k0 + 1\nend program p\n"
        return files
    if shape == "mixed":  # data pointers and procedure pointers linking each other
        body = ["module m", "contains", "subroutine f()", "end subroutine f", "subroutine g()"]
        for i in range(n):
            body.append(f"integer, pointer :: x{i} => x{succ[i]}" if i % 2 == 0 else f"procedure(f), pointer :: x{i} => x{succ[i]}")
        body += [f"x{i} = 1" if i % 2 == 0 else f"call x{i}()" for i in range(n)] + ["end subroutine g", "end module m"]
        return {f"{R}/m.f90": "\n".join(body) + "\n"}
    if shape == "include_multi":  # an INCLUDE cycle with two outside includers
        files = {}
        for i in range(n):
            files[f"{R}/i{i}.f90"] = f"integer :: k{i}\ninclude 'i{succ[i]}.f90'\n"
        files[f"{R}/main.f90"] = "program p\ninclude 'i0.f90'\nk0 = k0 + 1\nend program p\n"
        files[f"{R}/y.f90"] = "include 'i0.f90'\ninteger :: yv\n"
        return files
    if shape == "dummy_iface":  # a dummy procedure whose interface is the enclosing (or another such) procedure
        body = ["module m", "contains"]
        for i in range(n):
            body += [f"subroutine s{i}(p)", f"procedure(s{succ[i]}) :: p", "call p(p)", f"end subroutine s{i}"]
        body += ["end module m"]
        return {f"{R}/m.f90": "\n".join(body) + "\n"}
    if shape == "include_in_proc":  # the INCLUDE sits inside a procedure that is itself included content
        files = {}
        for i in range(n):
            files[f"{R}/i{i}.f90"] = f"integer :: k{i}\nsubroutine sa{i}()\ninclude 'i{succ[i]}.f90'\nk{i} = 1\nend subroutine sa{i}\n"
        files[f"{R}/main.f90"] = "program p\ninclude 'i0.f90'\nend program p\n"
        return files
    if shape == "use_ptr_cross":  # modules that USE each other AND hold pointers linked along the same successor map
        files = {}
        for i in range(n):
            body = [f"module m{i}", f"use m{succ[i]}", f"integer, pointer :: p{i} => p{succ[i]}", f"procedure(s{succ[i]}), pointer :: q{i} => q{succ[i]}",
                    "contains", f"subroutine s{i}()", f"p{i} = p{succ[i]}", f"call q{succ[i]}()", f"end subroutine s{i}", f"end module m{i}"]
            files[f"{R}/m{i}.f90"] = "\n".join(body) + "\n"
        return files
    if shape == "include_nested":  # each file includes its successor twice, two BLOCKs deep (shared content below two scopes)
        files = {}
        for i in range(n):
            inc = f"block\n  block\n    include 'i{succ[i]}.f90'\n  end block\nend block\n"
            files[f"{R}/i{i}.f90"] = f"integer :: k{i}\n" + inc + inc
        files[f"{R}/main.f90"] = "program p\n  include 'i0.f90'\n  k0 = k0 + 1\nend program p\n"
        return files
    raise AssertionError(shape)


def probe_all(files, init_order=None) -> bool:
    srv = ws.reset(SRV, files) if init_order is None else ws.fresh_init(SRV, files, init_order)
    # indexing / linking / diagnostics must not have failed
    for o in srv.conn.out:
        if o[0] == "err":
            return False
        if o[0] == "notif" and o[1] == "window/showMessage" and o[2].get("type") == 1:
            return False
    for path in files:
        if path not in srv.workspace:
            return False
        r = ws.request(srv, "textDocument/documentSymbol", path, 0, 0)
        if r[0] != "resp":
            return False
        lines = ws.doc_lines(srv, path)
        for ln, text in enumerate(lines):
            for m in WORD.finditer(text):
                for col in (m.start(), m.end()):
                    for meth in ws.POSITIONAL:
                        r = ws.request(srv, meth, path, ln, col)
                        if r[0] != "resp" or not ws.ranges_ok(srv, meth, path, r[1]):
                            return False
    return True


def _reorder(files, order):
    """the order in which the files are opened (= indexed and linked): as given, reversed, rotated"""
    items = list(files.items())
    if order == 1:
        items.reverse()
    elif order == 2:
        items = items[1:] + items[:1]
    elif order == 3:
        items = items[-1:] + items[:-1]
    return dict(items)


def cycles(k: int, n: int, s0: int, s1: int, s2: int, s3: int, order: int) -> bool:
    """every functional graph on n nodes of catalogue shape k, the files opened one by one in 4 different orders
    (order 0..3) or indexed by the real workspace_init of a fresh server in up to NINIT enumeration orders (order >= 4):
    indexed, diagnosed and queried at every identifier
    pre: 0 <= k < len(SHAPES) and 1 <= n <= NMAX and (k * 5 + n + s0 * 3) % NPART == PART and 0 <= order <= 3 + NINIT
    pre: 0 <= s0 < n and 0 <= s1 < n and 0 <= s2 < n and 0 <= s3 < n
    pre: (n > 1 or s1 == 0) and (n > 2 or s2 == 0) and (n > 3 or s3 == 0)
    post: _
    """
    tick("cycles")
    k, n, order = conc(k, 0, len(SHAPES) - 1), conc(n, 1, NMAX), conc(order, 0, 3 + NINIT)
    succ = [conc(s, 0, n - 1) for s in (s0, s1, s2, s3)][:n]
    with NoTracing():  # k, n, succ are concrete here: the indexed program runs at native speed
        files = render(SHAPES[k], n, succ)
        if len(files) == 1 and order > 0:
            return True
        if order <= 3:
            res, hung = ws.guarded(lambda: probe_all(_reorder(files, order)), 20)
        else:
            # a freshly started server: the real workspace_init over the files enumerated in a given order (the
            # directory listing order is arbitrary); all permutations up to NINIT, evenly spaced beyond
            import itertools
            import math

            names = sorted(files)
            total = math.factorial(len(names))
            j = order - 4
            if j >= min(total, NINIT):
                return True
            idx = j * total // min(total, NINIT)
            perm = next(itertools.islice(itertools.permutations(names), idx, None))
            res, hung = ws.guarded(lambda: probe_all(files, list(perm)), 20)
        ok = bool(res) and not hung
    tock("cycles")
    return ok
