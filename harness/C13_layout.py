"""C13 / C14 - the index is invariant under meaning-preserving re-layout; fixed form is understood like free form.

Real code executed: load path (splitlines, tab/newline normalisation, detect_fixed_format), FortranFile.parse with
get_code_line (free- and fixed-form continuation assembly, comment and string awareness), label stripping,
trailing-comment cut, ';' splitting, every statement reader, FortranAST scope machinery, check_file.

Oracle: the generator's own model (lib/gen.py): for every layout of a generated program the parsed index must
contain exactly the model's scopes (kind, name, parent, line of the opening and of the END statement under THAT
layout - so inserted lines shift reported line numbers by exactly the number inserted above) and declarations, and
no error diagnostic.  Comparing every layout with the same model is stronger than comparing layouts pairwise.
"""
import os
import re

from crosshair.tracers import NoTracing

from lib.hx import conc, npart, part, silence, tick, tock

silence()
from lib import gen, ws  # noqa: E402
from lib.gen import Layout  # noqa: E402
import harness.C04_outline as G  # noqa: E402  (program builder)

from fortls.parsers.internal.parser import FortranFile, splitlines  # noqa: E402

PART, NPART = part(), npart()
THOROUGH = os.environ.get("VERIF_TIER", "quick") == "thorough"
NE = gen.N_EXEC
TYPE_ID = {"module": 1, "program": 1, "submodule": 8, "sub": 2, "fun": 3, "type": 4, "interface": 5, "block": 9, "do": 11,
           "if": 13, "select": 10, "assoc": 14, "where": 12}
FAIL = []


def dump(ast):
    scopes = sorted((s.get_type(), None if s.name.startswith("#") else s.name.lower(), s.sline - 1, s.eline - 1,
                     (s.parent.sline - 1) if s.parent is not None else None) for s in ast.scope_list)
    varz = sorted((v.name.lower(), v.sline - 1, (v.parent.sline - 1) if v.parent is not None else None)
                  for v in ast.variable_list)
    return scopes, varz


def expected(p, line_of):
    scopes = sorted((TYPE_ID[sc.kind], None if sc.name.startswith("#") else sc.name.lower(), line_of[sc.open_st],
                     line_of[sc.close_st], line_of[p.scopes[sc.parent].open_st] if sc.parent is not None else None)
                    for sc in p.scopes)
    varz = sorted((n.lower(), line_of[i], line_of[p.scopes[sid].open_st]) for n, sid, i, _ in p.vars)
    return scopes, varz


def check(p, lay: Layout, via_text=False, path="/x/prog.f90", want_fixed=None):
    lines, line_of = gen.layout(p, lay)
    f = FortranFile(path)
    if via_text:
        f.set_contents(splitlines(lay.eol.join(lines) + lay.eol))
    else:
        f.set_contents(list(lines))
    if want_fixed is not None and f.fixed != want_fixed:
        return f"classified fixed={f.fixed}, expected {want_fixed}\n" + "\n".join(lines)
    ast = f.parse()
    f.ast = ast
    got_s, got_v = dump(ast)
    exp_s, exp_v = expected(p, line_of)
    if got_s != exp_s:
        miss = [x for x in exp_s if x not in got_s]
        extra = [x for x in got_s if x not in exp_s]
        return f"scopes differ: missing {miss} unexpected {extra}\n" + "\n".join(f"{i}: {ln}" for i, ln in enumerate(lines))
    # declared variables: exactly the model's (fortls adds ASSOCIATE binding names a<k>: ignored)
    got_v2 = [v for v in got_v if not (v[0].startswith("a") and v[0][1:].isdigit())]
    if got_v2 != exp_v:
        miss = [x for x in exp_v if x not in got_v2]
        extra = [x for x in got_v2 if x not in exp_v]
        return f"variables differ: missing {miss} unexpected {extra}\n" + "\n".join(f"{i}: {ln}" for i, ln in enumerate(lines))
    # where each declared name stands: the position reported for definition targets and diagnostic ranges
    # (find_word_in_code_line from the statement's first line, through continuation lines, in any letter case)
    for n, sid, i, _ in p.vars:
        if n.startswith("z") and p.scopes[sid].kind == "select":
            continue  # associate names of SELECT TYPE regions are declared on the SELECT line, not on the guard's
        start = line_of[i]
        stop = min([line_of[j] for j in line_of if line_of[j] > start] + [len(lines)])
        want = None
        for j in range(start, stop):
            mm = re.search(r"(?<![\w$])" + re.escape(n.lower()) + r"(?![\w$])", lines[j].lower().split("!")[0])
            if mm:
                want = (j, mm.start(), mm.end())
                break
        if want is None:
            continue
        spelled = next((v.name for v in ast.variable_list if v.name.lower() == n.lower() and v.sline - 1 == start), n)
        gl, rng = f.find_word_in_code_line(start, spelled)  # as the server asks: with the name as spelled in the source
        if (gl, rng.start, rng.end) != want:
            return f"position of '{n}' declared in the statement starting on line {start}: reported {(gl, rng.start, rng.end)}, it stands at {want}\n" + "\n".join(f"{i}: {ln}" for i, ln in enumerate(lines))
    # bindings: link the file the way the server does and compare with the model
    obj_tree = {k: [o, path] for k, o in ast.global_dict.items()}
    ast.resolve_links(obj_tree, 1)
    got_links = []
    for s in ast.scope_list:
        if s.get_type() == 4 and getattr(s, "inherit", None):
            got_links.append(("extends", s.name.lower(), getattr(getattr(s, "inherit_var", None), "name", "?").lower()))
        if s.get_type() == 5 and not s.name.startswith("#") and s.members:
            for m in s.mems:
                got_links.append(("generic", s.name.lower(), m.name.lower()))
        if s.get_type() == 8:
            got_links.append(("submodule", s.name.lower(), getattr(getattr(s, "ancestor_obj", None), "name", "?").lower()))
    for v in ast.variable_list:
        if v.get_type(no_link=True) == 7:
            got_links.append(("method", v.name.lower(), getattr(v.link_obj, "name", "?").lower()))
    exp_links = sorted((k, a.lower(), b.lower()) for k, a, b in p.links)
    if sorted(got_links) != exp_links:
        return f"bindings differ: got {sorted(got_links)} expected {exp_links}\n" + "\n".join(f"{i}: {ln}" for i, ln in enumerate(lines))
    errs = [d for d in f.check_file(obj_tree) if d.get("severity") == 1]
    if errs:
        return f"error diagnostics {[(d['message'], d['range']['start']['line']) for d in errs]}\n" + "\n".join(f"{i}: {ln}" for i, ln in enumerate(lines))
    return None


def programs(i1):
    """the programs checked for first construct i1"""
    n1s = range(-1, NE) if THOROUGH else ((i1 + 1) % NE,)
    for n1 in n1s:
        for u2 in (range(5) if THOROUGH else (1, 2, 4)):
            yield G.build(i1, n1, (i1 + u2) % 4, u2 % 2 == 0, (u2 + i1) % 5, u2 % 2 == 1, u2)


def positional(i1: int, kind: int, case: int, eol: int, tb: bool) -> bool:
    """one positional transformation (kind: 0 none, 1 blank line, 2 ordinary comment line, 3 trailing comment,
    4 join with ';') applied before/at EVERY statement in turn, combined with a letter-case mode, a line-ending
    convention and trailing blanks: the index equals the model
    pre: 0 <= i1 < NE and 0 <= kind <= 4 and 0 <= case <= 3 and 0 <= eol <= 2 and (i1 + kind * 5 + case) % NPART == PART
    post: _
    """
    tick("positional")
    i1, kind, case, eol = conc(i1, 0, NE - 1), conc(kind, 0, 4), conc(case, 0, 3), conc(eol, 0, 2)
    tb = bool(tb)
    ok = True
    with NoTracing():
        for p in programs(i1):
            n = len(p.sts)
            for i in ([None] if kind == 0 else range(n)):
                lay = Layout(case=case, eol=["\n", "\r\n", "\r"][eol], trail_blank=tb,
                             blank_before=i if kind == 1 else None, comment_before=i if kind == 2 else None,
                             trail_comment=i if kind == 3 else None, join=i if kind == 4 else None)
                msg = check(p, lay, via_text=True, want_fixed=False)
                if msg:
                    FAIL.append(msg)
                    ok = False
                    break
            if not ok:
                break
    tock("positional")
    return ok


def split(i1: int, amp: bool, case: int) -> bool:
    """every statement split over a continuation line at EVERY token boundary, with or without a leading '&',
    with nothing / an empty line / a whitespace-only line / a comment line between the two parts
    pre: 0 <= i1 < NE and 0 <= case <= 1 and (i1 * 2 + case) % NPART == PART
    post: _
    """
    tick("split")
    i1, case = conc(i1, 0, NE - 1), conc(case, 0, 1)
    amp = bool(amp)
    ok = True
    with NoTracing():
        for p in programs(i1):
            for i, st in enumerate(p.sts):
                for k in range(1, len(st.toks)):
                    lay = Layout(case=case * 3, split=(i, k), lead_amp=amp, cont_gap=[None, "", "   ", "  ! comment & inside"][(i + k) % 4],
                                 cont_comment=[None, " ! in & out", " ! plain"][(i + 2 * k) % 3])
                    msg = check(p, lay)
                    if msg is None and k + 2 < len(st.toks) and (THOROUGH or (i + k) % 2 == 0):
                        msg = check(p, Layout(case=case * 3, split=(i, k), split2=k + 2, lead_amp=amp, cont_gap=[None, "", "  ! c"][(i + k) % 3],
                                              cont_gap2=["  ! c2", None, ""][(i + k) % 3]))
                    if msg is None and (i + k) % (3 if THOROUGH else 6) == 0:
                        # classic six-blank indentation: the continuation mark is the only sign of free form, whether it
                        # ends the line, is followed by blanks, or by a comment
                        for cc, tb in ((None, False), (None, True), (" ! why", False)):
                            msg = msg or check(p, Layout(case=case * 3, split=(i, k), lead_amp=amp, base_indent=6, cont_comment=cc, trail_blank=tb), want_fixed=False)
                    if msg:
                        FAIL.append(msg)
                        ok = False
                        break
                if not ok:
                    break
            if not ok:
                break
    tock("split")
    return ok


# --------------------------------------------------------------------------------------------- C14
CCHARS = ["C", "c", "*", "!", "d", "D"]


def fixed(i1: int, cc: int, case: int, kind: int) -> bool:
    """the same programs rendered in FIXED form (statements from column 7, labels in columns 1-5, comment lines
    flagged in column 1 by C c * ! d D placed before every statement in turn, continuation marked in column 6 at
    every token boundary): classified as fixed form and indexed like the model
    pre: 0 <= i1 < NE and 0 <= cc < len(CCHARS) and 0 <= case <= 1 and 0 <= kind <= 2 and (i1 + cc + kind) % NPART == PART
    post: _
    """
    tick("fixed")
    i1, cc, case, kind = conc(i1, 0, NE - 1), conc(cc, 0, len(CCHARS) - 1), conc(case, 0, 1), conc(kind, 0, 2)
    ok = True
    with NoTracing():
        for p in programs(i1):
            n = len(p.sts)
            if kind == 0:
                lays = [Layout(form="fixed", case=case, fixed_cchar=CCHARS[cc])]
            elif kind == 1:
                lays = (Layout(form="fixed", case=case, fixed_cchar=CCHARS[cc], comment_before=i, blank_before=(i + 3) % n) for i in range(n))
            else:
                gaps = [None, "", "   ", " comment between"]
                lays = [Layout(form="fixed", case=case, fixed_cchar=CCHARS[cc], split=(i, k), fixed_cont="&1+x$"[(i + k) % 5],
                               cont_gap=gaps[(i + k) % 4])
                        for i, st in enumerate(p.sts) for k in range(1, len(st.toks))]
                # three pieces: comment / blank lines in the first gap, the second gap, or both
                lays += [Layout(form="fixed", case=case, fixed_cchar=CCHARS[cc], split=(i, k), split2=k + 2, fixed_cont="&1+x$"[(i + k) % 5],
                                cont_gap=gaps[(i + k) % 4], cont_gap2=gaps[(i + 2 * k + 1) % 4])
                         for i, st in enumerate(p.sts) for k in range(1, len(st.toks) - 2, 2)]
            for lay in lays:
                msg = check(p, lay, path="/x/prog.f", want_fixed=True)
                if msg:
                    FAIL.append(msg)
                    ok = False
                    break
            if not ok:
                break
    tock("fixed")
    return ok


MINIMAL = [["program p", "call s()", "end program p"], ["subroutine s()", "x = 1", "end subroutine s"],
           ["module m", "contains", "subroutine s()", "end subroutine s", "end module m"],
           ["function f(x)", "f = x", "end function f"], ["use m", "call s()", "end"],
           ["block data", "end block data"], ["print *, 'c'", "end"], ["if (a) then", "end if", "end"]]


def free_not_fixed(i1: int, indent: int, case: int, m: int) -> bool:
    """a free-form program (indentation 0..4, any letter case) is never classified as fixed form - the generated
    programs, and declaration-free programs written from column 1
    pre: 0 <= i1 < NE and 0 <= indent <= 4 and 0 <= case <= 3 and 0 <= m < len(MINIMAL) and (i1 + indent) % NPART == PART
    post: _
    """
    tick("free_not_fixed")
    i1, indent, case, m = conc(i1, 0, NE - 1), conc(indent, 0, 4), conc(case, 0, 3), conc(m, 0, len(MINIMAL) - 1)
    ok = True
    with NoTracing():
        from fortls.helper_functions import detect_fixed_format

        doc = [" " * indent + (ln.upper() if case == 1 else ln) for ln in MINIMAL[m]]
        if detect_fixed_format(doc):
            FAIL.append(f"classified as fixed form: {doc}")
            ok = False
        for p in programs(i1):
            if not ok:
                break
            msg = check(p, Layout(case=case, indent=indent), want_fixed=False)
            if msg is None:
                # every statement starts in column 7 or later and no letter is in column 1: the only free-form evidence
                # is one continuation whose '&' ends the line, or is followed by blanks or by a trailing comment
                j = (i1 + indent + m) % len(p.sts)
                if len(p.sts[j].toks) > 2:
                    for cc, tb in ((" ! why", False), (None, False), (None, True), (" ! say \"no!\" &", False)):
                        msg = msg or check(p, Layout(case=case, indent=indent, base_indent=6, split=(j, 2), cont_comment=cc, trail_blank=tb), want_fixed=False)
            if msg:
                FAIL.append(msg)
                ok = False
    tock("free_not_fixed")
    return ok
