"""C03 - indexing is total and terminates on every document text.

Real code executed: FortranFile.parse (main loop, every read_* reader, parse_docs,
get_code_line, label/comment/semicolon handling), preprocess_file, FortranAST
add_*/end_scope/close_file, and - through the real server - update_workspace_file,
check_file and documentSymbol on the resulting index.

Assertion for every generated text: no exception escapes, the server reports no
"failed" message, the number of get_line calls stays below 8*nLines+32 (progress),
and a wall-clock guard catches non-termination.

The index space (which lines, where the text is cut, which character is mutated) is
symbolic and forked by the solver; each chosen text is then indexed concretely.
"""
import os

from crosshair.tracers import NoTracing

from lib.hx import conc, npart, part, silence, tick, tock

silence()
from lib import ws  # noqa: E402

from fortls.parsers.internal.parser import FortranFile  # noqa: E402

PART, NPART = part(), npart()
THOROUGH = os.environ.get("VERIF_TIER", "quick") == "thorough"
SRV = ws.make_server()

STMTS = [
    "module m", "end module m", "end module", "end", "contains", "implicit none", "private", "public :: a, b",
    "program p", "end program p", "subroutine s(a, b)", "end subroutine s", "function f(x) result(y)", "end function",
    "integer :: a", "real(8), dimension(3), intent(in) :: b(2)", "character(len=*), parameter :: c = 'x!y'",
    "type :: t", "type, extends(t) :: u", "end type t", "procedure :: p => s", "procedure(foo) :: bar", "generic :: g => p",
    "class(t), pointer :: q => null()", "interface", "interface g2", "abstract interface", "end interface",
    "module procedure s", "import :: t", "use m, only: a => b", "use, intrinsic :: iso_c_binding", "include 'x.inc'",
    "do i = 1, 3", "do 10 i=1,3", "10 continue", "end do", "if (a > 0) then", "else if (b) then", "end if",
    "select case (a)", "case (1)", "select type (z => q)", "type is (t)", "class default", "end select",
    "associate (x => a, y => b%c)", "associate(, a=>b)", "end associate", "block", "end block", "where (a > 0)", "end where",
    "forall (i=1:3)", "enum, bind(c)", "enumerator :: e1 = 1", "end enum", "a = b; c = d", "call s(a, &", "  & b)",
    "!> doc before", "!! doc after", "x = 'unterminated", "submodule (m) sm", "end submodule", "critical", "end critical",
    "&", ";", "", "   ", "end procedure", "module function mf(x)", "impure elemental function ef(x)", "integer, p",
    "type(t) ::", "integer :: a(", "real function f(x", "use m, only:", "procedure(", "end function f ! c", "external ff",
    "integer function g()", "double precision x", "character*(*) s", "integer*8 :: k", "end interface g2", "type is (",
    "select type (", "interface operator(+)", "interface assignment(=)", "public", "import", "import, none", "use",
]
PPSTMTS = [
    "#define X 1", "#define X", "#define F(a,b) a+b \\", "#define Y 1 \\", "#undef X", "#if X", "#if", "#if X / Z > 1",
    "#if 16 % Z == 0", "#if defined(", "#if (X", "#ifdef X", "#ifdef", "#ifndef", "#elif X", "#elif", "#else", "#endif",
    "#include \"nofile.h\"", "#include", "#define", "#if 1 &&", "#if X == 'a'", "integer :: F(1,2)", "x = F(1", "x = X Y", "",
    "#define G() \\g<1", "#define H(a) (a <= 3)", "#if H", "# ", "#pragma once", "#if 2 ** 99999999 > 0", "#if 1 << 9999999999",
    "#define P(s) print *, s", "P('C:\\data\\x')", "P('(a,\\g)')", "x = P(b, 2.0\\)", "#if X && Y", "#if X /* c */", "#if -7/2 == -3",
    "#define X 2", "#ifdef X // c", "x = P(P(1))",
]
NS, NP = len(STMTS), len(PPSTMTS)
PATH = ws.ROOT + "/doc.f90"
_FAIL = []


def index_ok(text: str, path: str) -> bool:
    """index `text` through the real server; True iff total, bounded and queryable"""
    calls = [0]
    orig = FortranFile.get_line

    def counted(self, line_no, pp_content=False):
        calls[0] += 1
        return orig(self, line_no, pp_content)

    FortranFile.get_line = counted
    try:
        srv = ws.reset(SRV, {path: text})
    finally:
        FortranFile.get_line = orig
    nl = text.count("\n") + 1
    for o in srv.conn.out:
        if o[0] == "err" or (o[0] == "notif" and o[1] == "window/showMessage" and o[2].get("type") == 1):
            _FAIL.append((text, str(o)[:200]))
            return False
    if path not in srv.workspace or srv.workspace[path].ast is None:
        _FAIL.append((text, "not in workspace"))
        return False
    # one didOpen = parse + diagnostics (find_word_in_code_line re-reads lines): generous linear bound
    if calls[0] > 40 * nl + 200:
        _FAIL.append((text, f"get_line called {calls[0]} times for {nl} lines"))
        return False
    r = ws.request(srv, "textDocument/documentSymbol", path, 0, 0)
    if r[0] != "resp":
        _FAIL.append((text, str(r)[:200]))
        return False
    return True


def parse_ok(lines, path: str) -> bool:
    """direct FortranFile.parse (cheaper than the server route; used for the large enumerations)"""
    f = FortranFile(path)
    f.set_contents(list(lines))
    calls = [0]
    orig = FortranFile.get_line

    def counted(self, line_no, pp_content=False):
        calls[0] += 1
        return orig(self, line_no, pp_content)

    FortranFile.get_line = counted
    try:
        ast = f.parse()
    finally:
        FortranFile.get_line = orig
    f.ast = ast
    f.check_file({})
    if calls[0] > 8 * len(lines) + 32 + 40 * len(lines):
        _FAIL.append((lines, f"get_line called {calls[0]} times"))
        return False
    return True


def _guard(fn):
    try:
        res, hung = ws.guarded(fn, 120)
    except Exception as e:  # an exception escaping the indexer IS the violation
        _FAIL.append(("exception", type(e).__name__, str(e)[:200]))
        return False
    return bool(res) and not hung


SEQ = 3
EXT = [".f90", ".F90", ".f"]


def stmt_seq(t0: int, t1: int, form: int) -> bool:
    """every document of 1..2 (quick) / 1..3 (thorough) statement lines whose first two lines are t0, t1, in free form,
    as a preprocessed file, and rendered in fixed form
    pre: 0 <= t0 < NS and -1 <= t1 < NS and 0 <= form <= 2 and (t0 * 3 + form) % NPART == PART
    pre: THOROUGH or t1 == -1
    post: _
    """
    tick("stmt_seq")
    t0, t1, form = conc(t0, 0, NS - 1), conc(t1, -1, NS - 1), conc(form, 0, 2)

    def run():
        path = "/x/doc" + EXT[form]
        ind = "      " if form == 2 else ""
        if THOROUGH:  # first two lines chosen by the solver, third enumerated
            docs = ([t0] + ([t1] if t1 >= 0 else []) + ([t2] if t2 >= 0 else []) for t2 in ([-1] if t1 == -1 else range(-1, NS)))
        else:  # first line chosen by the solver, second enumerated
            docs = ([t0] + ([t2] if t2 >= 0 else []) for t2 in range(-1, NS))
        for doc in docs:
            if not parse_ok([ind + STMTS[t] for t in doc], path):
                return False
        return True

    with NoTracing():
        ok = _guard(run)
    tock("stmt_seq")
    return ok


def pp_seq(t0: int, t1: int, a: bool) -> bool:
    """every preprocessed document of 1..3 lines from the directive table (incl. ill-formed directives), with / without
    initial definitions
    pre: 0 <= t0 < NP and t1 == -1 and t0 % NPART == PART
    post: _
    """
    tick("pp_seq")
    t0 = conc(t0, 0, NP - 1)
    a = bool(a)

    def run():
        for t1_ in range(-1, NP):
            for t2 in ([-1] if t1_ == -1 else range(-1, NP)):
                lines = [PPSTMTS[t0]] + ([PPSTMTS[t1_]] if t1_ >= 0 else []) + ([PPSTMTS[t2]] if t2 >= 0 else [])
                f = FortranFile("/x/doc.F90")
                f.set_contents(list(lines))
                ast = f.parse(pp_defs={"X": "1", "Z": "0", "F(": "1", "G[x": "2"} if a else {})
                f.ast = ast
                f.check_file({})
        return True

    with NoTracing():
        ok = _guard(run)
    tock("pp_seq")
    return ok


# ------------------------------------------------------------------ prefixes and small mutations of valid programs
import harness.C09_positions as _S  # noqa: E402  (sample sources)

BASES = [("main.f90", _S.PROG), ("shapes.f90", _S.MOD), ("ppmod.F90", _S.PP), ("fixed.f", _S.FIXED), ("sub.f90", _S.SUBMOD)]
if THOROUGH:
    import glob

    for _f in sorted(glob.glob("/repo/test/test_source/**/*.[fF]*", recursive=True)):
        try:
            BASES.append((os.path.basename(_f), open(_f, encoding="utf-8", errors="replace").read().replace("\t", " ")))
        except OSError:
            pass
MUT = ["", "(", ")", "'", "\"", "&", "!", ";", ",", "=>", "::", "%", "#", " ", "\n", "end", "*", "0"]
MAXLEN = max(len(t) for _, t in BASES)


def prefix(bi: int, ln: int) -> bool:
    """the text an editor sends while the user types: every prefix of a valid program that ends inside line ln
    (cut at every column), indexed through the real server
    pre: 0 <= bi < len(BASES) and 0 <= ln <= 80 and (bi + ln) % NPART == PART
    post: _
    """
    tick("prefix")
    bi = conc(bi, 0, len(BASES) - 1)
    name, text = BASES[bi]
    lines = text.split("\n")
    if ln >= len(lines):
        return True
    ln = conc(ln, 0, len(lines) - 1)

    def run():
        head = "\n".join(lines[:ln])
        head = head + "\n" if ln > 0 else ""
        for col in range(0, len(lines[ln]) + 1):
            if not index_ok(head + lines[ln][:col], ws.ROOT + "/" + name):
                return False
        return True

    with NoTracing():
        ok = _guard(run)
    tock("prefix")
    return ok


def mutate(bi: int, ln: int, m: int, dele: bool) -> bool:
    """small mutations of valid programs: at every column of line ln insert token MUT[m] (or delete one character)
    pre: 0 <= bi < len(BASES) and 0 <= ln <= 80 and m == 0 and (bi + ln) % NPART == PART
    post: _
    """
    tick("mutate")
    bi = conc(bi, 0, len(BASES) - 1)
    name, text = BASES[bi]
    lines = text.split("\n")
    if ln >= len(lines):
        return True
    ln = conc(ln, 0, len(lines) - 1)
    dele = bool(dele)

    def run():
        for mm in ([0] if dele else range(len(MUT))):
            for col in range(0, len(lines[ln]) + 1):
                new = lines[ln][:col] + MUT[mm] + lines[ln][col + (1 if dele else 0):]
                doc = list(lines)
                doc[ln] = new
                f = FortranFile("/x/" + name)
                f.set_contents("\n".join(doc).split("\n"))
                ast = f.parse()
                f.ast = ast
                f.check_file({})
        return True

    with NoTracing():
        ok = _guard(run)
    tock("mutate")
    return ok


# ------------------------------------------------------------------ texts whose expansion multiplies
KS = list(range(1, 41)) if THOROUGH else [1, 2, 3, 5, 8, 12, 16, 20, 24, 28, 32, 36, 40]


def growth(kind: int, ki: int, w: int) -> bool:
    """documents of k+3 lines whose preprocessing multiplies text or work: (0) a chain of k object-like macros each using
    the next one w times, (1) the same with function-like macros, (2) a file that #includes itself w times (k extra
    lines of code), (3) two headers that include each other w times, (4) k nested `include 'self'` lines (Fortran
    INCLUDE).  Indexing must finish within 60 s (measured under the tracer's overhead; plain: < 1 s) whatever k and w:
    a 45-line text must not take 2**40 steps.  k = KS[ki].
    pre: 0 <= kind <= 4 and 0 <= ki < len(KS) and 1 <= w <= 3 and (kind * 3 + w) % NPART == PART
    post: _
    """
    tick("growth")
    kind, ki, w = conc(kind, 0, 4), conc(ki, 0, len(KS) - 1), conc(w, 1, 3)
    k = KS[ki]

    def run():
        root = ws.ROOT
        if kind == 0:
            files = {f"{root}/g.F90": "".join(f"#define A{i} " + " ".join([f"A{i + 1}"] * w) + "\n" for i in range(k))
                     + "program p\n  x = A0\nend program p\n"}
        elif kind == 1:
            files = {f"{root}/g.F90": "".join(f"#define A{i}(x) " + " + ".join([f"A{i + 1}(x)"] * w) + "\n" for i in range(k))
                     + "program p\n  y = A0(1)\nend program p\n"}
        elif kind == 2:
            files = {f"{root}/g.F90": '#include "g.F90"\n' * w + "program p\n" + "  x = 1\n" * k + "end program p\n"}
        elif kind == 3:
            files = {f"{root}/g.F90": '#include "a.h"\nprogram p\nend program p\n',
                     f"{root}/a.h": '#include "b.h"\n' * w + "#define IN_A 1\n" * k,
                     f"{root}/b.h": '#include "a.h"\n' * w + "#define IN_B 1\n"}
        else:
            files = {f"{root}/g.f90": "program p\n" + "  include 'g.f90'\n" * min(w, 2) + "  x = 1\n" * k + "end program p\n"}
        srv = ws.reset(SRV, files)
        main = next(iter(files))
        if main not in srv.workspace or srv.workspace[main].ast is None:
            _FAIL.append((kind, k, w, "not indexed"))
            return False
        r = ws.request(srv, "textDocument/documentSymbol", main, 0, 0)
        return r[0] == "resp" and any(s["name"].lower() == "p" for s in (r[1] or []))

    with NoTracing():
        try:
            res, hung = ws.guarded(run, 60)
        except Exception as e:
            _FAIL.append(("exception", type(e).__name__, str(e)[:200]))
            return False
    tock("growth")
    return bool(res) and not hung
