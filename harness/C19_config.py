"""C19 - command line and configuration file interchangeable; the file wins.

Real code executed symbolically: cli() (option inventory read from the parser
object on every run), LangServer.__init__ (the settings loop),
_load_config_file, _check_config_types, _load_config_file_dirs / _general /
_preproc.

Stubs (part of the claim): json5.load returns the dict built by the harness
(or raises / returns a non-object for the fault obligations); os.path.isfile
-> True for the config path; open -> empty text stream; load_intrinsics ->
cached tuple (so that __init__ is cheap); the connection records messages.
"""
import argparse
import io

from lib.hx import conc, npart, part, silence, tick, tock

silence()

import fortls.langserver as L  # noqa: E402
from fortls.interface import cli  # noqa: E402
from fortls.langserver import LangServer  # noqa: E402
from fortls.regex_patterns import create_src_file_exts_str  # noqa: E402

PART, NPART = part(), npart()
_INTR = L.load_intrinsics()
L.load_intrinsics = lambda: _INTR


class _Conn:
    def __init__(self):
        self.out = []

    def send_notification(self, method, params):
        self.out.append((method, params))


class _J5:
    mode = 0
    value = None
    ValueErr = ValueError("<string>:1 Unexpected end of input at column 16")

    @classmethod
    def load(cls, fp, *a, **k):
        if cls.mode == 1:
            raise cls.ValueErr
        return cls.value


L.json5 = _J5
L.open = lambda path, *a, **k: io.StringIO("")
_real_isfile = L.os.path.isfile


class _OS:
    """os facade for fortls.langserver: only isfile is overridden"""

    class path:
        join = staticmethod(L.os.path.join)
        isfile = staticmethod(lambda p: str(p).endswith(".fortlsrc") or _real_isfile(p))

    def __getattr__(self, n):
        return getattr(__import__("os"), n)


L.os = _OS()

# ---------------------------------------------------------------- option inventory (from the parser object)
PARSER = cli("fortls")
DEFAULTS = vars(PARSER.parse_args([]))
OPTS = []  # (dest, kind)
for _a in PARSER._actions:
    d = _a.dest
    if d in ("help", "version", "config", "debug_help") or (d.startswith("debug_") and d != "debug_log"):
        continue
    if isinstance(_a, argparse._StoreTrueAction):
        kind = "bool"
    elif _a.type is int:
        kind = "int"
    elif _a.nargs == "*":
        kind = "list"
    elif _a.type is str:
        kind = "str"
    elif d == "pp_defs":
        kind = "dict"
    else:
        kind = "other"
    OPTS.append((d, kind))
# options the file loader does not know at all are findings by themselves; deprecated no-ops are excluded
DEPRECATED = {"preserve_keyword_order", "variable_hover"}
OPTS = [o for o in OPTS if o[0] not in DEPRECATED]
NOPT = len(OPTS)
assert NOPT >= 25, OPTS
STRS = ["", "f", "fortran"]
SETS = [[], ["a"], [".x", "b"]]
DICTS = [{}, {"A": "1"}, {"B": "", "A": "2"}]


def _val(kind, b: bool, i: int, sel: int, for_cli: bool):
    if kind == "bool":
        return b
    if kind == "int":
        return i
    if kind == "str":
        return STRS[sel]
    if kind == "list":
        return set(SETS[sel]) if for_cli else list(SETS[sel])
    if kind == "dict":
        return dict(DICTS[sel])
    raise AssertionError(kind)


def _effective(dest, kind, v):
    """what the attribute must be when the option takes value v (either source)"""
    if kind == "list":
        return sorted(v)
    return v


def _attr(srv, dest, kind):
    v = getattr(srv, dest)
    if kind == "list":
        return sorted(v) if v else []
    return v


def _mkserver(settings):
    srv = LangServer(_Conn(), dict(settings))
    srv.root_path = "/w"
    return srv


def one(i: int, present: bool, cb: bool, fb: bool, cint: int, fint: int, csel: int, fsel: int) -> bool:
    """one option: file wins when present, CLI/default value kept when absent; every other option untouched
    pre: 0 <= i < NOPT and i % NPART == PART and 0 <= csel <= 2 and 0 <= fsel <= 2
    post: _
    """
    tick("one")
    i, csel, fsel = conc(i, 0, NOPT - 1), conc(csel, 0, 2), conc(fsel, 0, 2)
    dest, kind = OPTS[i]
    settings = dict(DEFAULTS)
    cv = _val(kind, cb, cint, csel, True)
    settings[dest] = cv
    srv = _mkserver(settings)
    before = {d: _attr(srv, d, k) for d, k in OPTS}
    cfg = {}
    if present:
        cfg[dest] = _val(kind, fb, fint, fsel, False)
    _J5.mode, _J5.value = 0, cfg
    srv._load_config_file()
    want = _effective(dest, kind, cfg[dest]) if present else _effective(dest, kind, cv)
    ok = _attr(srv, dest, kind) == want
    for d, k in OPTS:
        if d != dest:
            ok = ok and _attr(srv, d, k) == before[d]
    # derived settings follow the effective value
    ok = ok and srv.sync_type == (2 if srv.incremental_sync else 1)
    ok = ok and srv.FORTRAN_SRC_EXT_REGEX.pattern == create_src_file_exts_str(srv.incl_suffixes).pattern
    ok = ok and not srv.conn.out
    tock("one")
    return ok


def pair(i: int, dj: int, pi: bool, pj: bool, fb: bool, gb: bool, fint: int, gint: int, fsel: int, gsel: int) -> bool:
    """two options together: each follows its own source, independently
    pre: 0 <= i < NOPT and 1 <= dj <= 3 and i % NPART == PART and 0 <= fsel <= 2 and 0 <= gsel <= 2
    post: _
    """
    tick("pair")
    i, dj, fsel, gsel = conc(i, 0, NOPT - 1), conc(dj, 1, 3), conc(fsel, 0, 2), conc(gsel, 0, 2)
    j = (i + dj * 7) % NOPT
    if j == i:
        return True
    (d1, k1), (d2, k2) = OPTS[i], OPTS[j]
    srv = _mkserver(DEFAULTS)
    b1, b2 = _attr(srv, d1, k1), _attr(srv, d2, k2)
    cfg = {}
    if pi:
        cfg[d1] = _val(k1, fb, fint, fsel, False)
    if pj:
        cfg[d2] = _val(k2, gb, gint, gsel, False)
    _J5.mode, _J5.value = 0, cfg
    srv._load_config_file()
    ok = _attr(srv, d1, k1) == (_effective(d1, k1, cfg[d1]) if pi else b1)
    ok = ok and _attr(srv, d2, k2) == (_effective(d2, k2, cfg[d2]) if pj else b2)
    tock("pair")
    return ok


BAD_TOP = [[], [1, 2], 3, None, "x", 1.5, True]
WRONG = {"bool": [3, "x", None, [True], 0], "int": ["4", None, True, [1], 1.5, {}],
         "str": [3, None, ["a"], True], "list": ["a", 3, None, [1], {"a": 1}, [["a"]], True],
         "dict": ["A", 3, None, True]}


# the same options given explicitly on the command line (argparse then yields e.g. a plain list for --pp_suffixes)
CLI_GIVEN = vars(PARSER.parse_args(["--nthreads", "2", "--pp_suffixes", ".h", ".F90", "--source_dirs", "src", "--incl_suffixes", ".inc",
                                    "--excl_suffixes", ".bak", "--excl_paths", "old", "--include_dirs", "inc", "--pp_defs", '{"A": "1"}',
                                    "--hover_language", "fortran", "--max_line_length", "80", "--recursion_limit", "500",
                                    "--max_comment_line_length", "90", "--incremental_sync", "--notify_init"]))


def fault(mode: int, k: int, i: int, w: int, also: bool, given: bool) -> bool:
    """invalid configuration: user-visible message, every option keeps its command-line value, no exception
    pre: 0 <= mode <= 2 and 0 <= k < len(BAD_TOP) and 0 <= i < NOPT and 0 <= w <= 6 and i % NPART == PART
    post: _
    """
    tick("fault")
    mode = conc(mode, 0, 2)
    srv = _mkserver(CLI_GIVEN if given else DEFAULTS)
    before = {d: _attr(srv, d, kk) for d, kk in OPTS}
    if mode == 0:  # syntax error reported by the JSON5 parser
        _J5.mode, _J5.value = 1, None
    elif mode == 1:  # wrong top-level type
        _J5.mode, _J5.value = 0, BAD_TOP[conc(k, 0, len(BAD_TOP) - 1)]
    else:  # a wrongly typed value (possibly after a valid one)
        i, w = conc(i, 0, NOPT - 1), conc(w, 0, 6)
        dest, kind = OPTS[i]
        wrongs = WRONG[kind]
        cfg = {}
        if also:
            cfg["nthreads" if dest != "nthreads" else "notify_init"] = 2 if dest != "nthreads" else True
        cfg[dest] = wrongs[w % len(wrongs)]
        if also:
            cfg["hover_language" if dest != "hover_language" else "symbol_skip_mem"] = "x" if dest != "hover_language" else True
        _J5.mode, _J5.value = 0, cfg
    srv._load_config_file()
    msgs = [o for o in srv.conn.out if o[0] == "window/showMessage" and o[1].get("type") == 1]
    ok = len(msgs) >= 1
    for d, kk in OPTS:
        ok = ok and _attr(srv, d, kk) == before[d]
    tock("fault")
    return ok


# ------------------------------------------------------------------ (E) observable effect, whichever way the option was given
EFFECT_SRC = ("module em\n#ifdef A\n  integer, save, pointer, dimension(3) :: ea\n#endif\n#if N == 3\n  real, target, allocatable, save :: en(:)\n#endif\n"
              "  integer, dimension(2), save, pointer :: plain\n  real :: sq = SQRT(2.0)\nend module em\n")
EFFECTS = [  # (option, value as JSON-able, command-line words)
    ("sort_keywords", True, ["--sort_keywords"]),
    ("pp_defs", {"A": ""}, ["--pp_defs", '{"A": ""}']),
    ("pp_defs", ["A"], ["--pp_defs", '["A"]']),
    ("pp_defs", {"A": "", "N": 3}, ["--pp_defs", '{"A": "", "N": 3}']),
    ("pp_defs", {"N": "3"}, ["--pp_defs", '{"N": "3"}']),
    ("hover_language", "f90", ["--hover_language", "f90"]),
    ("max_line_length", 20, ["--max_line_length", "20"]),
]


def _effect_dump(srv):
    """start-up as serve_initialize does it (config already loaded by the caller), then index EFFECT_SRC twice (a
    re-parse after start-up is what an edit triggers) and collect what a client would see"""
    from fortls.parsers.internal.parser import FortranFile

    srv._load_intrinsics()
    out = {}
    for rnd in (1, 2):
        f = FortranFile("/w/em.F90")
        f.set_contents(EFFECT_SRC.split("\n"))
        f.preproc = True
        f.ast = f.parse(pp_defs=srv.pp_defs, include_dirs=srv.include_dirs)
        srv.workspace = {"/w/em.F90": f}
        srv.obj_tree = {k: [o, "/w/em.F90"] for k, o in f.ast.global_dict.items()}
        out[("vars", rnd)] = sorted(v.name for v in f.ast.variable_list)
        r = srv.serve_hover({"params": {"textDocument": {"uri": "file:///w/em.F90"}, "position": {"line": len(f.contents_split) - 3, "character": 15}}})
        out[("hover intrinsic", rnd)] = None if r is None else r["contents"]["value"][:40]
        for v in f.ast.variable_list:
            r = srv.serve_hover({"params": {"textDocument": {"uri": "file:///w/em.F90"}, "position": {"line": v.sline - 1, "character": f.contents_split[v.sline - 1].index(v.name) + 1}}})
            out[("hover", v.name, rnd)] = None if r is None else r["contents"]["value"]
        out[("diag", rnd)] = sorted((d["message"], d["range"]["start"]["line"]) for d in f.check_file(srv.obj_tree, max_line_length=srv.max_line_length,
                                                                                                     max_comment_line_length=srv.max_comment_line_length))
    return out


def effects(k: int) -> bool:
    """the observable effect of an option (hover text incl. attribute order and language tag, which declarations of
    a preprocessed file are indexed, line-length diagnostics; at start-up and after a re-parse) is the same whether
    it was given on the command line or in the configuration file, and differs from the default where it should
    pre: 0 <= k < len(EFFECTS)
    post: _
    """
    tick("effects")
    k = conc(k, 0, len(EFFECTS) - 1)
    opt, val, words = EFFECTS[k]
    from crosshair.tracers import NoTracing

    with NoTracing():
        ok = _effects_concrete(opt, val, words)
    tock("effects")
    return ok


def _effects_concrete(opt, val, words) -> bool:
    ok = True
    s_cli = _mkserver(vars(PARSER.parse_args(words)))  # no configuration file at all: nothing is loaded
    d_cli = _effect_dump(s_cli)
    s_file = _mkserver(dict(DEFAULTS))
    _J5.mode, _J5.value = 0, {opt: val}
    s_file._load_config_file()
    d_file = _effect_dump(s_file)
    s_def = _mkserver(dict(DEFAULTS))
    _J5.mode, _J5.value = 0, {}
    s_def._load_config_file()
    d_def = _effect_dump(s_def)
    if d_cli != d_file:
        diff = {kk: (d_cli.get(kk), d_file.get(kk)) for kk in d_cli if d_cli.get(kk) != d_file.get(kk)}
        FAILS.append(f"{opt}={val!r}: command line vs configuration file differ in {diff}")
        ok = False
    if d_cli == d_def:
        FAILS.append(f"{opt}={val!r}: no observable effect at all (the probe document does not exercise it)")
        ok = False
    L.set_keyword_ordering(False)
    return ok


FAILS = []
