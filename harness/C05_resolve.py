"""C05 - go-to-definition follows Fortran's scoping and USE-association rules.

Real code executed (through the real server over an in-memory workspace): parser, update_workspace_file / link
resolution, get_definition, find_in_scope, get_use_tree (ONLY/rename intersection, re-export), climb_type_tree,
Variable.get_type_obj, Type.resolve_inherit, get_inner_scope, serve_definition, _create_ref_link.
(S) genuinely symbolic: find_in_scope / get_use_tree on object graphs built with the real constructors, visibility
    codes and flags as symbolic ints/bools (CrossHair traces the resolver itself).
(W) worlds: every standard-conforming combination of accessibility attributes/statements, default PRIVATE, USE
    with ONLY / rename, re-export through a second module, local and host declarations; every use site.
    Oracle: the reference resolver of lib/world.py (Fortran rules).
(T) '%' chains through components, nested types and EXTENDS.
"""
import os

from crosshair.tracers import NoTracing

from lib.hx import conc, npart, part, silence, tick, tock

silence()
from lib import ws  # noqa: E402
from lib.world import W, R  # noqa: E402

from fortls.parsers.internal.ast import FortranAST  # noqa: E402
from fortls.parsers.internal.module import Module  # noqa: E402
from fortls.parsers.internal.parser import FortranFile  # noqa: E402
from fortls.parsers.internal.subroutine import Subroutine  # noqa: E402
from fortls.parsers.internal.use import Use  # noqa: E402
from fortls.parsers.internal.utilities import find_in_scope  # noqa: E402
from fortls.parsers.internal.variable import Variable  # noqa: E402

PART, NPART = part(), npart()
THOROUGH = os.environ.get("VERIF_TIER", "quick") == "thorough"
SRV = ws.make_server()
FAIL = []
VIS = [0, 1, -1, 2, -2]
from lib.hx import kf_active  # noqa: E402

KF_REEXPORT = kf_active("C05-reexport-private-default")


def check_world(w: W):
    files = w.files()
    if not w.conforming():
        return None
    srv = ws.reset(SRV, files)
    for path, line, col, name, scope in w.sites:
        want = w.resolve(scope, name)
        if want == "AMBIGUOUS":
            continue
        r = ws.request(srv, "textDocument/definition", path, line, col)
        if r[0] != "resp":
            return f"definition error {r} at {path}:{line}:{col}"
        got = r[1]
        if want is None:
            if KF_REEXPORT and w.m2_private and w.target == "m2" and scope in ("main", "inner") and name in w.names_m2()[1]:
                continue  # known finding C05-reexport-private-default (known_findings.json)
            if got is not None:
                return (f"'{name}' in {scope} has no accessible declaration but definition answered "
                        f"{got['uri']}:{got['range']['start']['line']}\n" + dump(files))
        else:
            dpath, dline, dcol = w.decl[want]
            if got is None or not got["uri"].endswith(dpath.split("/")[-1]) or got["range"]["start"]["line"] != dline:
                g = None if got is None else (got["uri"], got["range"]["start"]["line"])
                return f"'{name}' in {scope} ({path}:{line}:{col}) must bind to {want} at {dpath}:{dline}, definition answered {g}\n" + dump(files)
            if got["range"]["start"]["character"] != dcol:
                return f"'{name}' -> {want}: wrong column {got['range']} expected {dcol}\n" + dump(files)
    return None


def dump(files):
    return "\n".join(f"--- {p}\n" + "\n".join(f"{i}: {ln}" for i, ln in enumerate(t.split("\n"))) for p, t in files.items())


def worlds(va: int, u21: int, up: int) -> bool:
    """accessibility of a (5 forms), how m2 uses m1 (4 forms) and how main uses its module (6 forms) symbolic; default
    PRIVATE in m1/m2, explicit re-export, accessibility of b/c, use target, local/host declarations and a second
    USE enumerated inside; every use site of every conforming world lands on the declaration Fortran binds it to
    pre: 0 <= va <= 4 and 0 <= u21 <= 3 and 0 <= up <= 5 and (va * 7 + u21 * 3 + up) % NPART == PART
    post: _
    """
    tick("worlds")
    va, u21, up = conc(va, 0, 4), conc(u21, 0, 3), conc(up, 0, 5)
    ok = True
    with NoTracing():
        vbs = (0, -1, 2) if THOROUGH else (0, -1)
        vcs = (0, -2) if THOROUGH else (0,)
        for m1p in (False, True):
            for vb in vbs:
                for vc in vcs:
                    for m2p in (False, True):
                        for m2pub in (False, True):
                            for target in ("m1", "m2"):
                                for la in range(4):
                                    for su in (0, 1):
                                        w = W(m1p, VIS[va], vb, vc, u21, m2p, m2pub, target, up, la, su, vis_ex=(2 if m1p else -2) if (la + su) % 2 else 0)
                                        msg = check_world(w)
                                        if msg:
                                            FAIL.append(msg)
                                            ok = False
                                            break
                                    if not ok:
                                        break
                                if not ok:
                                    break
                            if not ok:
                                break
                        if not ok:
                            break
                    if not ok:
                        break
                if not ok:
                    break
            if not ok:
                break
    tock("worlds")
    return ok


# ------------------------------------------------------------------------------------------ (T) % chains
TYPES = """module tm
  type :: base_t
    integer :: bx
    real :: shared
  end type base_t
  type, extends(base_t) :: mid_t
    integer :: mx
  end type mid_t
  type, extends(mid_t) :: leaf_t
    integer :: lx
    type(base_t) :: inner
    type(mid_t), pointer :: nxt
  end type leaf_t
  type :: other_t
    integer :: bx
    type(leaf_t) :: leaf
  end type other_t
end module tm
"""
_TL = TYPES.split("\n")
_L = {"bx": _TL.index("    integer :: bx"), "shared": _TL.index("    real :: shared"), "mx": _TL.index("    integer :: mx"),
      "lx": _TL.index("    integer :: lx"), "obx": len(_TL) - 1 - _TL[::-1].index("    integer :: bx")}
CHAINS = [("o%lx", "lx", _L["lx"]), ("o%mx", "mx", _L["mx"]), ("o%bx", "bx", _L["bx"]), ("o%shared", "shared", _L["shared"]),
          ("o%inner%bx", "bx", _L["bx"]), ("o%inner%shared", "shared", _L["shared"]), ("o%nxt%mx", "mx", _L["mx"]),
          ("o%nxt%bx", "bx", _L["bx"]), ("w%bx", "bx", _L["obx"]), ("w%leaf%lx", "lx", _L["lx"]),
          ("w%leaf%inner%bx", "bx", _L["bx"]), ("w%leaf%nxt%shared", "shared", _L["shared"]), ("arr(2)%bx", "bx", _L["bx"]),
          ("arr(i)%nxt%mx", "mx", _L["mx"]), ("o % inner % bx", "bx", _L["bx"])]


def chains(k: int, form: int) -> bool:
    """'%' chains: the component of the object's declared type, including components inherited through one and two
    levels of EXTENDS, nested types, pointer components and array elements
    pre: 0 <= k < len(CHAINS) and 0 <= form <= 2
    post: _
    """
    tick("chains")
    k, form = conc(k, 0, len(CHAINS) - 1), conc(form, 0, 2)
    ok = True
    with NoTracing():
        expr, comp, dline = CHAINS[k]
        stmt = [f"  {expr} = 1", f"  x = {expr} + 2", f"  call s({expr}, 3)"][form]
        prog = "program p\n  use tm\n  type(leaf_t) :: o, arr(3)\n  type(other_t) :: w\n  integer :: i\n" + stmt + "\nend program p\n"
        srv = ws.reset(SRV, {f"{R}/tm.f90": TYPES, f"{R}/p.f90": prog})
        col = stmt.rindex(comp) + 1
        r = ws.request(srv, "textDocument/definition", f"{R}/p.f90", 5, col)
        if r[0] != "resp" or r[1] is None or not r[1]["uri"].endswith("tm.f90") or r[1]["range"]["start"]["line"] != dline:
            FAIL.append(f"{expr}: component {comp} must land on tm.f90:{dline}, got {r}")
            ok = False
    tock("chains")
    return ok


# ------------------------------------------------------------------------------------------ (S) symbolic resolver
N = ["a", "b", "c"]


def _public(vis, defvis):
    return vis > 0 or (vis == 0 and defvis >= 0)


def resolver(vis_a: int, vis_b: int, defvis: int, use_only: bool, only_k: int, ren: bool, ren_local: int, local_k: int,
             reexport: bool, only2: bool, q: int) -> bool:
    """find_in_scope / get_use_tree traced symbolically on a graph built with the real constructors: module m1 with
    entities a, b (visibility codes symbolic), optional re-export through m2 (plain or ONLY), USE in a subroutine
    with symbolic ONLY / rename, optional local declaration; query name symbolic
    pre: -1 <= vis_a <= 1 and -1 <= vis_b <= 1 and -1 <= defvis <= 0
    pre: 0 <= only_k <= 1 and 0 <= ren_local <= 2 and -1 <= local_k <= 2 and 0 <= q <= 2 and (q * 4 + local_k + 1) % NPART == PART
    post: _
    """
    tick("resolver")
    f = FortranFile("/w/m.f90")
    ast = FortranAST(f)
    m1 = Module(ast, 1, "m1")
    ast.add_scope(m1, None)
    va = Variable(ast, 2, "a", "INTEGER", [])
    va.vis = vis_a
    ast.add_variable(va)
    vb = Variable(ast, 3, "b", "INTEGER", [])
    vb.vis = vis_b
    ast.add_variable(vb)
    m1.def_vis = defvis
    ast.end_scope(4)
    m2 = Module(ast, 5, "m2")
    ast.add_scope(m2, None)
    if reexport:
        m2.add_use(Use("m1", {"a"} if only2 else set(), {}, 6))
    ast.end_scope(7)
    s = Subroutine(ast, 8, "s")
    ast.add_scope(s, None)
    only, rmap = set(), {}
    if use_only:
        if ren:
            only.add(N[ren_local])
            rmap[N[ren_local]] = N[only_k]
        else:
            only.add(N[only_k])
    s.add_use(Use("m2" if reexport else "m1", only, rmap, 9))
    vl = None
    if local_k >= 0:
        vl = Variable(ast, 10, N[local_k], "REAL", [])
        ast.add_variable(vl)
    ast.end_scope(11)
    tree = {"m1": [m1, "/w/m.f90"], "m2": [m2, "/w/m.f90"], "s": [s, "/w/m.f90"]}
    got = find_in_scope(s, N[q], tree)
    name = N[q]
    mv = {"a": va, "b": vb}
    if vl is not None and vl.name == name:
        ok = got is vl
    else:
        if use_only:
            remote = (N[only_k] if name == N[ren_local] else None) if ren else (name if name == N[only_k] else None)
        else:
            remote = name
        if reexport and only2 and remote != "a":
            remote = None
        exp = mv[remote] if (remote in mv and _public(mv[remote].vis, defvis)) else None
        ok = got is exp
    tock("resolver")
    return ok


# ------------------------------------------------------------------------------------ EXTENDS chains across files x index order
IO_BASE = ("module io_base\n  type, abstract :: base_t\n    integer :: gc\n  contains\n    procedure(run_i), deferred :: run\n    procedure :: base_proc\n  end type base_t\n"
           "  abstract interface\n    subroutine run_i(self)\n      import base_t\n      class(base_t) :: self\n    end subroutine run_i\n  end interface\n"
           "contains\n  subroutine base_proc(self)\n    class(base_t) :: self\n  end subroutine base_proc\nend module io_base\n")
IO_MID = "module io_mid\n  use io_base\n  type, abstract, extends(base_t) :: mid_t\n    integer :: mc\n  end type mid_t\nend module io_mid\n"
IO_LEAF = "module io_leaf\n  use io_mid\n  type, extends(mid_t) :: leaf_t\n    integer :: lc\n  end type leaf_t\nend module io_leaf\n"
IO_USER = ("subroutine io_user()\n  use io_leaf\n  type(leaf_t) :: obj\n  obj%gc = 1\n  obj%mc = 2\n  obj%lc = 3\n  call obj%base_proc()\n  obj%\nend subroutine io_user\n")
IO_FILES = {"a_base.f90": IO_BASE, "m_mid.f90": IO_MID, "z_leaf.f90": IO_LEAF, "u_user.f90": IO_USER}


def check_inherit_order(order, how: int):
    import itertools

    names = list(IO_FILES)
    perm = list(itertools.permutations(names))[order]
    files = {f"{R}/{n}": IO_FILES[n] for n in perm}
    if how == 0:
        srv = ws.fresh_init(SRV, files, list(files))
    else:
        srv = ws.reset(SRV, files)  # opened one by one in this order
    up = f"{R}/u_user.f90"
    for line, col, target, tline in ((3, 6, "a_base.f90", 2), (4, 6, "m_mid.f90", 3), (5, 6, "z_leaf.f90", 3), (6, 13, "a_base.f90", 5)):
        r = ws.request(srv, "textDocument/definition", up, line, col)
        got = None if r[0] != "resp" or r[1] is None else (r[1]["uri"].split("/")[-1], r[1]["range"]["start"]["line"])
        if got != (target, tline):
            return f"order {perm} ({'workspace_init' if how == 0 else 'didOpen'}): definition at u_user.f90:{line}:{col} -> {got}, expected {(target, tline)}"
    r = ws.request(srv, "textDocument/completion", up, 7, 6)
    labels = sorted(i["label"].lower() for i in (r[1] or [])) if r[0] == "resp" else r
    if labels != ["base_proc", "gc", "lc", "mc", "run"]:
        return f"order {perm} ({'workspace_init' if how == 0 else 'didOpen'}): completion after obj% offers {labels}"
    # the concrete leaf does not implement the deferred binding of its grandparent: reported whatever the order.
    # Diagnostics are what a client holds after the last file was indexed: re-published on request by a save
    srv.handle({"jsonrpc": "2.0", "method": "textDocument/didSave", "params": {"textDocument": {"uri": "file://" + f"{R}/z_leaf.f90"}}})
    d = [x["message"] for x in ws.diagnostics(srv, f"{R}/z_leaf.f90")]
    if not any('Deferred procedure "run" not implemented' in m for m in d):
        return f"order {perm} ({'workspace_init' if how == 0 else 'didOpen'}): diagnostics of z_leaf.f90 lack the unimplemented deferred binding: {d}"
    return None


def inherit_orders(order: int, how: int) -> bool:
    """a three-level EXTENDS chain spread over three files plus a user, indexed in all 24 file orders by the real
    workspace_init (how 0) or opened one by one (how 1): components and bindings of every level resolve through
    obj%, completion after obj% offers exactly all of them, and the leaf's unimplemented deferred binding is reported
    pre: 0 <= order < 24 and 0 <= how <= 1 and order % NPART == PART
    post: _
    """
    tick("inherit_orders")
    order, how = conc(order, 0, 23), conc(how, 0, 1)
    with NoTracing():
        msg = check_inherit_order(order, how)
        if msg:
            FAIL.append(msg)
    tock("inherit_orders")
    return msg is None


# ------------------------------------------------------------------------------------ further association forms
_A = "module a\n integer :: x\n integer :: y\nend module a\n"
_Q = "module q\n integer :: Zed\n integer :: low\n PRIVATE :: zed\n private :: LOW\n integer, public :: vis\nend module q\n"
_R = "module r\n integer :: zed, low\ncontains\n subroutine s()\n  use q\n  print *, zed\n  print *, low\n  print *, VIS\n end subroutine s\nend module r\n"
FORMS = [
    # (files, file, line, col, expected (file, line) or None)
    ({"a.f90": _A, "c.f90": "program c\n use a, only: lx => x\n use a, only: ly => y\n print *, lx, ly\nend program c\n"}, "c.f90", 3, 10, ("a.f90", 1)),
    ({"a.f90": _A, "c.f90": "program c\n use a, only: lx => x\n use a, only: ly => y\n print *, lx, ly\nend program c\n"}, "c.f90", 3, 14, ("a.f90", 2)),
    ({"a.f90": _A, "c.f90": "program c\n use a, only: ly => y\n use a, only: x\n print *, x, ly\nend program c\n"}, "c.f90", 3, 13, ("a.f90", 2)),
    ({"a.f90": _A, "c.f90": "program c\n use a, only: ly => y\n use a, only: x\n print *, x, ly\nend program c\n"}, "c.f90", 3, 10, ("a.f90", 1)),
    ({"q.f90": _Q, "r.f90": _R}, "r.f90", 5, 11, ("r.f90", 1)),   # PRIVATE :: zed names Zed: host zed is the one
    ({"q.f90": _Q, "r.f90": _R}, "r.f90", 6, 11, ("r.f90", 1)),
    ({"q.f90": _Q, "r.f90": _R}, "r.f90", 7, 11, ("q.f90", 5)),
]


def forms(k: int, order: int) -> bool:
    """further USE-association forms: several renaming USE statements of one module (either order), PUBLIC/PRIVATE
    statements spelled in another letter case than the declaration; files indexed in both orders
    pre: 0 <= k < len(FORMS) and 0 <= order <= 1
    post: _
    """
    tick("forms")
    k, order = conc(k, 0, len(FORMS) - 1), conc(order, 0, 1)
    with NoTracing():
        files, fn, line, col, want = FORMS[k]
        items = list(files.items())
        if order:
            items.reverse()
        srv = ws.reset(SRV, {f"{R}/{n}": t for n, t in items})
        r = ws.request(srv, "textDocument/definition", f"{R}/{fn}", line, col)
        got = None if r[0] != "resp" or r[1] is None else (r[1]["uri"].split("/")[-1], r[1]["range"]["start"]["line"])
        ok = got == want
        if not ok:
            FAIL.append(f"form {k}: definition at {fn}:{line}:{col} -> {got}, expected {want}\n" + dump({n: t for n, t in items}))
    tock("forms")
    return ok
