"""C05 - go-to-definition follows Fortran's scoping and USE-association rules.

Real code executed (through the real server over an in-memory workspace): parser, update_workspace_file / link
resolution, get_definition, find_in_scope, get_use_tree (ONLY/rename intersection, re-export), climb_type_tree,
Variable.get_type_obj, Type.resolve_inherit, get_inner_scope, serve_definition, _create_ref_link.
(S) genuinely symbolic: find_in_scope / get_use_tree on object graphs built with the real constructors, visibility
    codes and flags as symbolic ints/bools (CrossHair traces the resolver itself).
(W) worlds: every standard-conforming combination of accessibility attributes/statements, default PRIVATE, USE
    with ONLY / rename, re-export through a second module, local and host declarations; every use site.
    Oracle: the reference resolver of lib/world.py (Fortran rules).
(T) '%' chains through components, nested types and EXTENDS.
"""
import os

from crosshair.tracers import NoTracing

from lib.hx import conc, npart, part, silence, tick, tock

silence()
from lib import ws  # noqa: E402
from lib.world import W, R  # noqa: E402

from fortls.parsers.internal.ast import FortranAST  # noqa: E402
from fortls.parsers.internal.module import Module  # noqa: E402
from fortls.parsers.internal.parser import FortranFile  # noqa: E402
from fortls.parsers.internal.subroutine import Subroutine  # noqa: E402
from fortls.parsers.internal.use import Use  # noqa: E402
from fortls.parsers.internal.utilities import find_in_scope  # noqa: E402
from fortls.parsers.internal.variable import Variable  # noqa: E402

PART, NPART = part(), npart()
THOROUGH = os.environ.get("VERIF_TIER", "quick") == "thorough"
SRV = ws.make_server()
FAIL = []
VIS = [0, 1, -1, 2, -2]
from lib.hx import kf_active  # noqa: E402

KF_REEXPORT = kf_active("C05-reexport-private-default")


def check_world(w: W):
    files = w.files()
    if not w.conforming():
        return None
    srv = ws.reset(SRV, files)
    for path, line, col, name, scope in w.sites:
        want = w.resolve(scope, name)
        if want == "AMBIGUOUS":
            continue
        r = ws.request(srv, "textDocument/definition", path, line, col)
        if r[0] != "resp":
            return f"definition error {r} at {path}:{line}:{col}"
        got = r[1]
        if want is None:
            if KF_REEXPORT and w.m2_private and w.target == "m2" and scope in ("main", "inner") and name in w.names_m2()[1]:
                continue  # known finding C05-reexport-private-default (known_findings.json)
            if got is not None:
                return (f"'{name}' in {scope} has no accessible declaration but definition answered "
                        f"{got['uri']}:{got['range']['start']['line']}\n" + dump(files))
        else:
            dpath, dline, dcol = w.decl[want]
            if got is None or not got["uri"].endswith(dpath.split("/")[-1]) or got["range"]["start"]["line"] != dline:
                g = None if got is None else (got["uri"], got["range"]["start"]["line"])
                return f"'{name}' in {scope} ({path}:{line}:{col}) must bind to {want} at {dpath}:{dline}, definition answered {g}\n" + dump(files)
            if got["range"]["start"]["character"] != dcol:
                return f"'{name}' -> {want}: wrong column {got['range']} expected {dcol}\n" + dump(files)
    return None


def dump(files):
    return "\n".join(f"--- {p}\n" + "\n".join(f"{i}: {ln}" for i, ln in enumerate(t.split("\n"))) for p, t in files.items())


def worlds(va: int, u21: int, up: int) -> bool:
    """accessibility of a (5 forms), how m2 uses m1 (4 forms) and how main uses its module (6 forms) symbolic; default
    PRIVATE in m1/m2, explicit re-export, accessibility of b/c, use target, local/host declarations and a second
    USE enumerated inside; every use site of every conforming world lands on the declaration Fortran binds it to
    pre: 0 <= va <= 4 and 0 <= u21 <= 3 and 0 <= up <= 5 and (va * 7 + u21 * 3 + up) % NPART == PART
    post: _
    """
    tick("worlds")
    va, u21, up = conc(va, 0, 4), conc(u21, 0, 3), conc(up, 0, 5)
    ok = True
    with NoTracing():
        vbs = (0, -1, 2) if THOROUGH else (0, -1)
        vcs = (0, -2) if THOROUGH else (0,)
        for m1p in (False, True):
            for vb in vbs:
                for vc in vcs:
                    for m2p in (False, True):
                        for m2pub in (False, True):
                            for target in ("m1", "m2"):
                                for la in range(4):
                                    for su in (0, 1):
                                        w = W(m1p, VIS[va], vb, vc, u21, m2p, m2pub, target, up, la, su)
                                        msg = check_world(w)
                                        if msg:
                                            FAIL.append(msg)
                                            ok = False
                                            break
                                    if not ok:
                                        break
                                if not ok:
                                    break
                            if not ok:
                                break
                        if not ok:
                            break
                    if not ok:
                        break
                if not ok:
                    break
            if not ok:
                break
    tock("worlds")
    return ok


# ------------------------------------------------------------------------------------------ (T) % chains
TYPES = """module tm
  type :: base_t
    integer :: bx
    real :: shared
  end type base_t
  type, extends(base_t) :: mid_t
    integer :: mx
  end type mid_t
  type, extends(mid_t) :: leaf_t
    integer :: lx
    type(base_t) :: inner
    type(mid_t), pointer :: nxt
  end type leaf_t
  type :: other_t
    integer :: bx
    type(leaf_t) :: leaf
  end type other_t
end module tm
"""
_TL = TYPES.split("\n")
_L = {"bx": _TL.index("    integer :: bx"), "shared": _TL.index("    real :: shared"), "mx": _TL.index("    integer :: mx"),
      "lx": _TL.index("    integer :: lx"), "obx": len(_TL) - 1 - _TL[::-1].index("    integer :: bx")}
CHAINS = [("o%lx", "lx", _L["lx"]), ("o%mx", "mx", _L["mx"]), ("o%bx", "bx", _L["bx"]), ("o%shared", "shared", _L["shared"]),
          ("o%inner%bx", "bx", _L["bx"]), ("o%inner%shared", "shared", _L["shared"]), ("o%nxt%mx", "mx", _L["mx"]),
          ("o%nxt%bx", "bx", _L["bx"]), ("w%bx", "bx", _L["obx"]), ("w%leaf%lx", "lx", _L["lx"]),
          ("w%leaf%inner%bx", "bx", _L["bx"]), ("w%leaf%nxt%shared", "shared", _L["shared"]), ("arr(2)%bx", "bx", _L["bx"]),
          ("arr(i)%nxt%mx", "mx", _L["mx"]), ("o % inner % bx", "bx", _L["bx"])]


def chains(k: int, form: int) -> bool:
    """'%' chains: the component of the object's declared type, including components inherited through one and two
    levels of EXTENDS, nested types, pointer components and array elements
    pre: 0 <= k < len(CHAINS) and 0 <= form <= 2
    post: _
    """
    tick("chains")
    k, form = conc(k, 0, len(CHAINS) - 1), conc(form, 0, 2)
    ok = True
    with NoTracing():
        expr, comp, dline = CHAINS[k]
        stmt = [f"  {expr} = 1", f"  x = {expr} + 2", f"  call s({expr}, 3)"][form]
        prog = "program p\n  use tm\n  type(leaf_t) :: o, arr(3)\n  type(other_t) :: w\n  integer :: i\n" + stmt + "\nend program p\n"
        srv = ws.reset(SRV, {f"{R}/tm.f90": TYPES, f"{R}/p.f90": prog})
        col = stmt.rindex(comp) + 1
        r = ws.request(srv, "textDocument/definition", f"{R}/p.f90", 5, col)
        if r[0] != "resp" or r[1] is None or not r[1]["uri"].endswith("tm.f90") or r[1]["range"]["start"]["line"] != dline:
            FAIL.append(f"{expr}: component {comp} must land on tm.f90:{dline}, got {r}")
            ok = False
    tock("chains")
    return ok


# ------------------------------------------------------------------------------------------ (S) symbolic resolver
N = ["a", "b", "c"]


def _public(vis, defvis):
    return vis > 0 or (vis == 0 and defvis >= 0)


def resolver(vis_a: int, vis_b: int, defvis: int, use_only: bool, only_k: int, ren: bool, ren_local: int, local_k: int,
             reexport: bool, only2: bool, q: int) -> bool:
    """find_in_scope / get_use_tree traced symbolically on a graph built with the real constructors: module m1 with
    entities a, b (visibility codes symbolic), optional re-export through m2 (plain or ONLY), USE in a subroutine
    with symbolic ONLY / rename, optional local declaration; query name symbolic
    pre: -1 <= vis_a <= 1 and -1 <= vis_b <= 1 and -1 <= defvis <= 0
    pre: 0 <= only_k <= 1 and 0 <= ren_local <= 2 and -1 <= local_k <= 2 and 0 <= q <= 2 and (q * 4 + local_k + 1) % NPART == PART
    post: _
    """
    tick("resolver")
    f = FortranFile("/w/m.f90")
    ast = FortranAST(f)
    m1 = Module(ast, 1, "m1")
    ast.add_scope(m1, None)
    va = Variable(ast, 2, "a", "INTEGER", [])
    va.vis = vis_a
    ast.add_variable(va)
    vb = Variable(ast, 3, "b", "INTEGER", [])
    vb.vis = vis_b
    ast.add_variable(vb)
    m1.def_vis = defvis
    ast.end_scope(4)
    m2 = Module(ast, 5, "m2")
    ast.add_scope(m2, None)
    if reexport:
        m2.add_use(Use("m1", {"a"} if only2 else set(), {}, 6))
    ast.end_scope(7)
    s = Subroutine(ast, 8, "s")
    ast.add_scope(s, None)
    only, rmap = set(), {}
    if use_only:
        if ren:
            only.add(N[ren_local])
            rmap[N[ren_local]] = N[only_k]
        else:
            only.add(N[only_k])
    s.add_use(Use("m2" if reexport else "m1", only, rmap, 9))
    vl = None
    if local_k >= 0:
        vl = Variable(ast, 10, N[local_k], "REAL", [])
        ast.add_variable(vl)
    ast.end_scope(11)
    tree = {"m1": [m1, "/w/m.f90"], "m2": [m2, "/w/m.f90"], "s": [s, "/w/m.f90"]}
    got = find_in_scope(s, N[q], tree)
    name = N[q]
    mv = {"a": va, "b": vb}
    if vl is not None and vl.name == name:
        ok = got is vl
    else:
        if use_only:
            remote = (N[only_k] if name == N[ren_local] else None) if ren else (name if name == N[only_k] else None)
        else:
            remote = name
        if reexport and only2 and remote != "a":
            remote = None
        exp = mv[remote] if (remote in mv and _public(mv[remote].vis, defvis)) else None
        ok = got is exp
    tock("resolver")
    return ok
