"""C11 - hover and signature help restate the declaration and its documentation.

Real code executed through the real server: read_var_def / parse_var_keywords / parse_kind / parse_imp_dim /
parse_imp_char, map_keywords / get_keywords, parse_docs / get_docstring / get_single_line_docstring,
Variable.get_hover, Subroutine/Function.get_hover / get_signature / resolve_arg_link, serve_hover,
serve_signature (active parameter).

Oracle: the declaration the line was rendered from - type, kind/len selector, the SET of attributes with their
arguments (order free), name, PARAMETER value, and exactly the documentation comment attached to that entity.
"""
import itertools
import os
import re

from crosshair.tracers import NoTracing

from lib.hx import conc, npart, part, silence, tick, tock

silence()
from lib import ws  # noqa: E402

PART, NPART = part(), npart()
THOROUGH = os.environ.get("VERIF_TIER", "quick") == "thorough"
SRV = ws.make_server()
R = ws.ROOT
FAIL = []

# (type text, [kind/len selectors])
TYPES = [
    ("integer", ["", "(8)", "(kind=8)", "*8", "(kind = selected_int_kind(9))"]),
    ("real", ["", "(8)", "(kind=wp)", "*4", "(kind=selected_real_kind(15, 307))"]),
    ("logical", ["", "(1)"]),
    ("complex", ["", "(kind=8)", "*16"]),
    ("character", ["", "(len=10)", "(len=*)", "*10", "*(*)", "(len=len_trim(nm)+1)", "(kind=1, len=5)", "(5)"]),
    ("double precision", [""]),
    ("type", ["(pt)"]),
    ("class", ["(pt)"]),
]
# attribute, allowed context: m = module variable, d = dummy argument, l = local
ATTRS = [("allocatable", "mdl"), ("pointer", "mdl"), ("target", "mdl"), ("save", "ml"), ("dimension(3)", "mdl"),
         ("dimension(2, n)", "d"), ("dimension(:)", "d"), ("intent(in)", "d"), ("intent(out)", "d"), ("intent(in out)", "d"),
         ("intent(inout)", "d"), ("optional", "d"), ("contiguous", "d"), ("public", "m"), ("private", "m"), ("parameter", "ml")]
ENTITY = ["plain", "dims", "charlen", "second_plain", "second_after_dims", "second_after_link", "dims_over_attr", "charlen_over_sel"]
DOC = ["none", "before", "after", "trailing", "before_multi", "trailing_then_comment"]


def norm(s):
    return re.sub(r"\s+", "", s).lower()


def incompatible(a, b):
    A, B = a.split("(")[0], b.split("(")[0]
    if A == B:
        return True
    pairs = [{"allocatable", "pointer"}, {"pointer", "target"}, {"allocatable", "target"}, {"public", "private"},
             {"parameter", "allocatable"}, {"parameter", "pointer"}, {"parameter", "target"}, {"parameter", "save"},
             {"contiguous", "dimension"}, {"allocatable", "intent"}, {"pointer", "intent"}, {"allocatable", "optional"},
             {"contiguous", "allocatable"}, {"contiguous", "pointer"}, {"contiguous", "target"}, {"pointer", "optional"}]
    return {A, B} in pairs


def build(ty: int, ks: int, attrs, ctx: str, ent: int, doc: int):
    """-> (files, line of the declaration, expected dict) or None if the combination is not meaningful"""
    tname, ksels = TYPES[ty]
    ksel = ksels[ks]
    attrs = list(attrs)
    for a, b in itertools.combinations(attrs, 2):
        if incompatible(a, b):
            return None
    if any(ctx not in dict(ATTRS)[a] for a in attrs):
        return None
    if tname == "class" and not (ctx == "d" or "pointer" in attrs or "allocatable" in attrs):
        return None
    if ("(len=*)" in ksel or "*(*)" in ksel) and ctx != "d" and "parameter" not in attrs:
        return None
    if "len_trim(nm)" in ksel and ctx == "m":
        return None
    has_dim_attr = any(a.startswith("dimension") for a in attrs)
    entity = ENTITY[ent]
    if entity == "dims" and (has_dim_attr or "contiguous" in attrs):
        return None
    if entity == "charlen" and (tname != "character" or ksel != ""):
        return None
    if ent >= 3 and (doc != 0 or "parameter" in attrs):
        return None  # the further entity forms are checked without documentation / values
    if entity == "second_after_dims" and (has_dim_attr or "contiguous" in attrs):
        return None
    if entity == "second_after_link" and "pointer" not in attrs:
        return None
    if entity == "dims_over_attr" and not ("dimension(3)" in attrs and "contiguous" not in attrs):
        return None
    if entity == "charlen_over_sel" and not (tname == "character" and ksel.startswith("(len=") and ksel[5:6].isdigit()):
        return None
    if "contiguous" in attrs and not has_dim_attr:
        attrs.append("dimension(:)")
    if "parameter" in attrs and (tname in ("type", "class") or "(len=*)" in ksel or "*(*)" in ksel or has_dim_attr or entity == "dims"):
        return None
    name = "var_x"
    ent_text = name + ("(5)" if entity in ("dims", "dims_over_attr") else "*20" if entity in ("charlen", "charlen_over_sel") else "")
    if entity == "second_plain":
        ent_text = "first_e, " + name
    elif entity == "second_after_dims":
        ent_text = "first_e(7), " + name
    elif entity == "second_after_link":
        ent_text = "first_e => tgt_x, " + name
    value = None
    if "parameter" in attrs:
        values = {"integer": ["42", "n*2 - 1", "merge(1, 2, n == wp)"], "real": ["1.5", "real(n)/2.0"],
                  "logical": [".true.", "wp >= 3", "wp == n", "n /= wp .and. wp <= 8"], "complex": ["(1.0, 2.0)"],
                  "character": ["'ab'", "'a = b'"], "double precision": ["2.d0"]}[tname]
        value = values[(ks + ent + doc + len(attrs)) % len(values)]
        ent_text += " = " + value
    decl = f"{tname}{ksel}" + "".join(", " + a for a in attrs) + " :: " + ent_text
    docs = {"none": None, "before": "the var doc", "after": "the var doc", "trailing": "the var doc",
            "before_multi": "first line\nsecond line", "trailing_then_comment": "the var doc"}[DOC[doc]]
    pre, post, trail = [], [], ""
    if DOC[doc] == "before":
        pre = ["!> the var doc"]
    elif DOC[doc] == "before_multi":
        pre = ["!> first line", "!! second line"]
    elif DOC[doc] == "after":
        post = ["!! the var doc"]
    elif DOC[doc] == "trailing":
        trail = " !< the var doc"
    elif DOC[doc] == "trailing_then_comment":
        trail = " !< the var doc"
        post = ["! an ordinary comment, not documentation"]
    ind = "    " if ctx != "m" else "  "
    dl = [ind + x for x in pre] + [ind + decl + trail] + [ind + x for x in post]
    other_doc = ["  !> doc of other", "  integer :: other"]
    lines = ["module hm", "  integer, parameter :: wp = 8, n = 4", "  real(8), target :: tgt_x(2)", "  type :: pt", "    integer :: c", "  end type pt"]
    if ctx == "m":
        lines += other_doc + dl + ["  real :: after_it !< doc of after_it", "contains", "  subroutine s(arg)", "    integer :: arg", "    arg = 1", "  end subroutine s"]
        use_line = None
    elif ctx == "d":
        lines += ["contains", "  subroutine s(" + name + ", nm)", "    character(len=*) :: nm"] + ["  " + x for x in other_doc] + dl + \
                 ["    real :: after_it !< doc of after_it", "  end subroutine s"]
    else:
        lines += ["contains", "  subroutine s(nm)", "    character(len=*) :: nm"] + ["  " + x for x in other_doc] + dl + \
                 ["    real :: after_it !< doc of after_it", "  end subroutine s"]
    lines += ["end module hm"]
    dline = next(i for i, ln in enumerate(lines) if ln.strip().startswith(decl))
    exp_attrs = {norm(a) for a in attrs}
    if entity == "dims":
        exp_attrs.add("dimension(5)")
    if entity == "dims_over_attr":  # what is given with the entity replaces the attribute of the statement
        exp_attrs.discard("dimension(3)")
        exp_attrs.add("dimension(5)")
    exp_type = norm(tname + ksel + ("*20" if entity == "charlen" else ""))
    if entity == "charlen_over_sel":
        exp_type = norm(tname + "*20")
    return {f"{R}/hm.f90": "\n".join(lines) + "\n"}, dline, lines[dline].index(name), dict(type=exp_type, attrs=exp_attrs, name=name, value=value, doc=docs), lines


def parse_hover(value: str):
    m = re.match(r"```fortran90\n(.*?)\n```(?:\n-----\n(.*))?$", value, re.S)
    if not m:
        return None
    code, doc = m.group(1), m.group(2)
    left, _, right = code.partition(" :: ")
    # split the left part at top-level commas
    parts, depth, cur = [], 0, ""
    for ch in left:
        if ch in "([":
            depth += 1
        elif ch in ")]":
            depth -= 1
        if ch == "," and depth == 0:
            parts.append(cur)
            cur = ""
        else:
            cur += ch
    parts.append(cur)
    name, _, value = right.partition(" = ")
    return dict(type=norm(parts[0]), attrs={norm(p) for p in parts[1:]}, name=name.strip(), value=value.strip() or None,
                doc=None if doc is None else doc.strip())


def check_decl(ty, ks, attrs, ctx, ent, doc):
    b = build(ty, ks, attrs, ctx, ent, doc)
    if b is None:
        return None
    files, dline, col, exp, lines = b
    srv = ws.reset(SRV, files)
    r = ws.request(srv, "textDocument/hover", f"{R}/hm.f90", dline, col + 1)
    if r[0] != "resp" or r[1] is None:
        return f"hover on {lines[dline]!r} returned {r}"
    got = parse_hover(r[1]["contents"]["value"])
    if got is None:
        return f"hover on {lines[dline]!r}: unparsable {r[1]['contents']['value']!r}"
    gdoc = got["doc"]
    edoc = exp["doc"]
    ok_doc = (gdoc or None) == (edoc or None) if edoc is None or "\n" not in edoc else norm(gdoc or "") == norm(edoc)
    if got["type"] != exp["type"] or got["attrs"] != exp["attrs"] or got["name"].lower() != exp["name"] or \
            norm(got["value"] or "") != norm(exp["value"] or "") or not ok_doc:
        return f"hover on {lines[dline].strip()!r} restates {got} expected {exp}"
    # the documentation belongs to this entity and to no other
    for other, odoc in (("other", "doc of other"), ("after_it", "doc of after_it")):
        ol = next(i for i, ln in enumerate(lines) if re.search(rf":: {other}\b", ln))
        r2 = ws.request(srv, "textDocument/hover", f"{R}/hm.f90", ol, lines[ol].index(other) + 1)
        g2 = parse_hover(r2[1]["contents"]["value"]) if r2[0] == "resp" and r2[1] else None
        if g2 is None or (g2["doc"] or "") != odoc:
            return f"neighbour '{other}' of {lines[dline].strip()!r} has documentation {g2 and g2['doc']!r}, expected {odoc!r}"
    return None


def decls(ty: int, ks: int, ctx: int) -> bool:
    """type ty with kind/len selector ks in context ctx (module variable / dummy argument / local); every subset of
    <=2 attributes in both orders, 3 entity forms and 6 documentation placements are enumerated inside
    pre: 0 <= ty < len(TYPES) and 0 <= ks <= 7 and 0 <= ctx <= 2 and (ty * 3 + ks + ctx) % NPART == PART
    post: _
    """
    tick("decls")
    ty, ctx = conc(ty, 0, len(TYPES) - 1), conc(ctx, 0, 2)
    if ks >= len(TYPES[ty][1]):
        return True
    ks = conc(ks, 0, len(TYPES[ty][1]) - 1)
    ok = True
    with NoTracing():
        names = [a for a, _ in ATTRS]
        combos = [()] + [(a,) for a in names] + [c for c in itertools.permutations(names, 2)]
        if THOROUGH:
            combos += [c for c in itertools.combinations(names, 3)]
        for attrs in combos:
            for ent in range(len(ENTITY)):
                for doc in (range(len(DOC)) if (THOROUGH or len(attrs) < 2) else (0, 3)):
                    msg = check_decl(ty, ks, attrs, "mdl"[ctx], ent, doc)
                    if msg:
                        FAIL.append(msg)
                        ok = False
                        break
                if not ok:
                    break
            if not ok:
                break
    tock("decls")
    return ok


# ------------------------------------------------------------------------------------ signature help
SIG = """module sm
contains
  !> resize something
  subroutine resize(width, depth, label, flag)
    real, intent(in) :: width !< the width
    real, intent(in) :: depth
    character(len=*), intent(in), optional :: label
    logical, intent(inout), optional :: flag
  end subroutine resize
  subroutine caller()
    real :: w
    {CALL}
  end subroutine caller
end module sm
"""
# (call text, [(column marker text to put the cursor AFTER, expected active parameter)])
CALLS = [
    ("call resize(1.0, 2.0, 'a', .true.)", [("resize(", 0), ("1.0,", 1), ("2.0,", 2), ("'a',", 3)]),
    ("call resize(w, depth=3.0, label='x', flag=.false.)", [("depth=", 1), ("label=", 2), ("flag=", 3)]),
    ("call resize(depth=3.0, width=1.0)", [("depth=", 1), ("width=", 0)]),
    ("call resize(flag=.true., label='z', depth=2., width=1.)", [("flag=", 3), ("label=", 2), ("depth=", 1), ("width=", 0)]),
    ("call resize(max(1.0, 2.0), min(w, 3.0), ", [("2.0),", 1), ("3.0), ", 2)]),
    ("call resize(w, (w + 1.0) * 2, label = 'q')", [("w, ", 1), ("label = ", 2)]),
    ("call resize(width=abs(w), depth=sqrt(w*w), ", [("depth=", 1), ("w*w), ", 2)]),
    ("call resize(w, width == 1.0, 'a,b', ", [("width == 1.0,", 2), ("'a,b', ", 3)]),       # a comparison is not a keyword; a comma inside a literal
    ("call resize(w, 2.0, flag=w>=1.0, label='k')", [("flag=w>=", 3), ("label=", 2)]),  # keyword argument holding a comparison
    ("call resize(w, 2.0, flag = w /= 1.0, ", [("w /= ", 3)]),
    ("end_flag = 1; call resize(1.0, 2.0, ", [("1.0, ", 1), ("2.0, ", 2)]),            # a line that only STARTS with the letters 'end'
]


def signature(c: int, k: int) -> bool:
    """signature help inside a call: the dummy arguments in declared order, each with its own declaration, and the
    parameter the cursor is in marked active - by position or by keyword, with nested parentheses before the cursor
    pre: 0 <= c < len(CALLS) and 0 <= k <= 3
    post: _
    """
    tick("signature")
    c = conc(c, 0, len(CALLS) - 1)
    call, marks = CALLS[c]
    if k >= len(marks):
        return True
    k = conc(k, 0, len(marks) - 1)
    ok = True
    with NoTracing():
        text = SIG.replace("{CALL}", call)
        lines = text.split("\n")
        ln = next(i for i, x in enumerate(lines) if x.strip() == call.strip())
        marker, want = marks[k]
        col = lines[ln].index(marker) + len(marker)
        srv = ws.reset(SRV, {f"{R}/sm.f90": text})
        r = ws.request(srv, "textDocument/signatureHelp", f"{R}/sm.f90", ln, col)
        if r[0] != "resp" or r[1] is None:
            FAIL.append(f"signatureHelp at {call!r} after {marker!r}: {r}")
            ok = False
        else:
            sig = r[1]["signatures"][0]
            labels = [p["label"].split("=")[0] for p in sig["parameters"]]
            docs = [norm(p.get("documentation", {}).get("value", "")) for p in sig["parameters"]]
            ok = labels == ["width", "depth", "label", "flag"] and r[1]["activeParameter"] == want
            ok = ok and "real,intent(in)::width" in docs[0] and "thewidth" in docs[0] and "real,intent(in)::depth" in docs[1]
            ok = ok and "character(len=*),intent(in),optional::label" in docs[2] and "logical,intent(inout),optional::flag" in docs[3]
            ok = ok and "resize(" in sig["label"].lower() and "resize something" in (sig.get("documentation", {}).get("value", ""))
            if not ok:
                FAIL.append(f"signatureHelp at {call!r} after {marker!r}: active {r[1]['activeParameter']} expected {want}; labels {labels}; docs {docs}")
    tock("signature")
    return ok


# ------------------------------------------------------------------------------------ (S) structural, TRACED
from fortls.constants import KEYWORD_LIST  # noqa: E402
from fortls.helper_functions import map_keywords  # noqa: E402
from fortls.parsers.internal.ast import FortranAST  # noqa: E402
from fortls.parsers.internal.parser import FortranFile  # noqa: E402
from fortls.parsers.internal.variable import Variable  # noqa: E402

KW = ["allocatable", "pointer", "target", "save", "optional", "contiguous", "public", "private", "parameter", "external"]
KWI = ["intent(in)", "intent(out)", "intent(inout)", "dimension(3)", "dimension(:,:)", "dimension(2,n)"]


def hover_struct(n: int, k0: int, k1: int, k2: int, i0: int, has_info: bool, has_kind: bool, pval: bool) -> bool:
    """map_keywords + Variable.get_hover TRACED: any sequence of <=3 attributes (symbolic indices into the keyword
    tables, optionally one attribute with an argument) on a variable with/without kind and PARAMETER value: the hover
    is 'TYPE[kind], ATTR..., :: name [= value]' listing exactly those attributes, each once, arguments kept
    pre: 0 <= n <= (3 if THOROUGH else 2) and 0 <= k0 < len(KW) and 0 <= k1 < len(KW) and 0 <= k2 < len(KW) and 0 <= i0 < len(KWI)
    pre: k0 != k1 and k1 != k2 and k0 != k2 and (n > 2 or k2 == (0 if k0 != 0 and k1 != 0 else 1 if k0 != 1 and k1 != 1 else 2)) and k0 % NPART == PART
    post: _
    """
    tick("hover_struct")
    words = [KW[k] for k in [k0, k1, k2][:n]]
    if has_info:
        words.insert(n // 2, KWI[i0])
    keywords, info = map_keywords([w.upper() for w in words])
    f = FortranFile("/w/a.f90")
    v = Variable(FortranAST(f), 3, "vx", "REAL", keywords, keyword_info=info, kind="(8)" if has_kind else None)
    if pval:
        v.is_const = True
        v.set_parameter_val("1.5")
    hover, doc = v.get_hover()
    left, _, right = hover.partition(" :: ")
    parts = left.split(", ")
    want_attrs = sorted(w.upper().replace("INOUT", "INOUT") for w in words)
    got_attrs = []
    # re-join pieces split inside parentheses (dimension(2,n) has no blank after the comma, so it stays whole)
    got_attrs = sorted(parts[1:])
    ok = parts[0] == ("REAL(8)" if has_kind else "REAL") and got_attrs == want_attrs
    ok = ok and right == ("vx = 1.5" if pval else "vx") and doc is None
    tock("hover_struct")
    return ok
