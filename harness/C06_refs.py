"""C06 - references, documentHighlight and rename cover exactly the occurrences of the entity.

Real code executed through the real server: serve_references (also for documentHighlight), serve_rename,
get_all_references (name regex, strip_comment, re-resolution through get_definition), change_json/uri_json.

The sources are written with occurrence markers {name@entity}: the generator knows, for every identifier
occurrence outside comments and character literals, which entity Fortran binds it to (declarations, dummy-argument
lists, several occurrences separated by a single operator character, names containing `$`, a dummy argument
shadowing a module variable, the same spelling in another module, renamed USE).  Oracle: from whichever occurrence
of an entity the request is made (start, middle, end of the identifier) the answer is exactly the set of that
entity's occurrences, each range spanning exactly the identifier; rename produces edits on exactly those ranges;
applying them (LSP reference model) gives the source in which exactly those identifiers are replaced.
"""
import os
import re

from crosshair.tracers import NoTracing

from lib.hx import conc, kf_active, npart, part, silence, tick, tock

silence()
from lib import ws  # noqa: E402

PART, NPART = part(), npart()
THOROUGH = os.environ.get("VERIF_TIER", "quick") == "thorough"
SRV = ws.make_server()
R = ws.ROOT
FAIL = []

MA = """module ma
  integer :: {i@ma.i}, {x$y@ma.xy}, {total@ma.total}
  integer :: {b@ma.b}, {z@ma.z}, {o@ma.o}
  real :: {other@ma.other}
  type :: {pt@ma.pt}
    integer :: {total@pt.total}
  end type {pt@ma.pt}
contains
  subroutine {work@ma.work}({i@work.i}, {n@work.n})
    integer :: {i@work.i}
    integer, intent(in) :: {n@work.n}
    type({pt@ma.pt}) :: {q@work.q}
    {i@work.i}={i@work.i}+1
    {total@ma.total} = {total@ma.total}*{i@work.i} - {total@ma.total}
    {x$y@ma.xy} = {x$y@ma.xy}+{i@work.i}; {other@ma.other} = {i@work.i}
    {q@work.q}%{total@pt.total} = {n@work.n} + {q@work.q}%{total@pt.total}
    print *, 'i total', "i", {i@work.i} ! i total other in a comment
    if ({i@work.i}>{n@work.n}) {i@work.i}={n@work.n}
    print *, 'total ! i is not a comment', {total@ma.total}, {i@work.i}
    print *, "it's i", {i@work.i}, 'say "total"', {total@ma.total}
  end subroutine {work@ma.work}
  subroutine {use_mod@ma.use_mod}()
    {i@ma.i} = {i@ma.i} + {total@ma.total}
    call {work@ma.work}({i@ma.i}, {total@ma.total})
    {other@ma.other}=-{other@ma.other}/{other@ma.other}
    {b@ma.b} = b'1010' + {z@ma.z} + z'FF' - o'17'*{o@ma.o}+b"11"
  end subroutine {use_mod@ma.use_mod}
end module ma
"""
MB = """module mb
  integer :: {total@mb.total}, {i@mb.i}
contains
  subroutine {bump@mb.bump}()
    {total@mb.total} = {total@mb.total} + {i@mb.i}
  end subroutine {bump@mb.bump}
end module mb
"""
MC = """module mc
  private
  integer :: {total@mc.total}, {i@mc.i}
  integer, public :: {cpub@mc.cpub}
contains
  subroutine {chelp@mc.chelp}()
    {total@mc.total} = {i@mc.i} + {cpub@mc.cpub}
  end subroutine {chelp@mc.chelp}
end module mc
"""
PR = """program pr
  use mc
  use ma, only: {total@ma.total}, {work@ma.work}, {i@ma.i}
  use mb, only: {bump@mb.bump}
  integer :: {k@pr.k}
  {k@pr.k} = {total@ma.total} + {i@ma.i} + {cpub@mc.cpub}
  call {work@ma.work}({k@pr.k}, {total@ma.total})
  call {bump@mb.bump}()
  {total@ma.total}={total@ma.total}-{k@pr.k}
contains
  subroutine {inner@pr.inner}({total@inner.total})
    real :: {total@inner.total}
    {total@inner.total}={total@inner.total}*{k@pr.k}+{i@ma.i}
  end subroutine {inner@pr.inner}
end program pr
"""
# the same module reached twice: unrestricted first, then through another module that uses it with an ONLY list
MH = """module mh
  use ma, only: {other@ma.other}
  integer :: {hv@mh.hv}
end module mh
"""
PR3 = """subroutine pr3()
  use ma
  use mh
  integer :: {k3@pr3.k3}
  {k3@pr3.k3} = {total@ma.total} + {i@ma.i} + {hv@mh.hv}
  {other@ma.other} = {total@ma.total}
end subroutine pr3
"""
# renamed USE association (local => remote): see known finding C06-use-rename-clause
PR2 = """program pr2
  use ma, only: {work@ma.work}, {mi@ma.i} => {i@ma.i}
  use mb, only: {btot@mb.total} => {total@mb.total}
  integer :: {k@pr2.k}
  {k@pr2.k} = {btot@mb.total} + {mi@ma.i}
  call {work@ma.work}({k@pr2.k}, {mi@ma.i})
end program pr2
"""
# a procedure declared in an interface block of a module is an entity of the module: used from another file
MI = """module mi
  interface
    subroutine {ext@mi.ext}({a@ext.a})
      integer :: {a@ext.a}
    end subroutine {ext@mi.ext}
  end interface
  interface {gen@mi.gen}
    subroutine {spec@mi.spec}({a@spec.a})
      real :: {a@spec.a}
    end subroutine {spec@mi.spec}
  end interface {gen@mi.gen}
end module mi
"""
PR4 = """subroutine pr4()
  use mi
  call {ext@mi.ext}(1)
  call {gen@mi.gen}(1.0)
end subroutine pr4
"""
# the specific procedure declared by an interface body inside a NAMED generic, called by its own name from another
# file: see known finding C06-specific-in-named-generic (the file is part of the check once the finding is gone)
PR5 = """subroutine pr5()
  use mi
  call {spec@mi.spec}(2.0)
end subroutine pr5
"""
# fixed form: comment lines (c, *, ! in column 1), trailing ! comments, '!' inside a character literal
FX = """      subroutine {fs@fx.fs}({val@fs.val})
      integer {val@fs.val}
      {val@fs.val} = 1 ! val here
c     val there
*     val = 2
! val
      print *, 'val ! val', {val@fs.val} ! val
      {val@fs.val} = {val@fs.val} +
     &  {val@fs.val}
      end
"""
MARK = re.compile(r"\{([A-Za-z_$][\w$]*)@([\w.]+)\}")


def render(template: str):
    """-> (text, [(line, start, end, name, entity)])"""
    lines, occ = [], []
    for ln, raw in enumerate(template.split("\n")):
        out = ""
        pos = 0
        for m in MARK.finditer(raw):
            out += raw[pos:m.start()]
            occ.append((ln, len(out), len(out) + len(m.group(1)), m.group(1), m.group(2)))
            out += m.group(1)
            pos = m.end()
        out += raw[pos:]
        lines.append(out)
    return "\n".join(lines), occ


FILES, OCC = {}, []
for _name, _tpl in (("ma.f90", MA), ("mb.f90", MB), ("mc.f90", MC), ("mh.f90", MH), ("pr.f90", PR), ("pr3.f90", PR3),
                    ("mi.f90", MI), ("pr4.f90", PR4), ("fx.f", FX)) + (() if kf_active("C06-specific-in-named-generic") else (("pr5.f90", PR5),)):
    _t, _o = render(_tpl)
    FILES[f"{R}/{_name}"] = _t
    OCC += [(f"{R}/{_name}",) + o for o in _o]
# renamed local names are aliases: occurrences of the alias text belong to the entity but carry another spelling;
# fortls searches by the spelling of the definition, so aliases are compared separately (see below)
ENTITIES = sorted({o[5] for o in OCC})
SPELL = {}
for o in OCC:
    SPELL.setdefault(o[5], set()).add(o[4].lower())


def expected(entity, spelling):
    return sorted((p, ln, s, e) for p, ln, s, e, n, ent in OCC if ent == entity and n.lower() == spelling)


def loc_set(result):
    return sorted((ws.path_from_uri(r["uri"]), r["range"]["start"]["line"], r["range"]["start"]["character"],
                   r["range"]["end"]["character"]) for r in result)


ws.path_from_uri = __import__("fortls.jsonrpc", fromlist=["path_from_uri"]).path_from_uri


def apply_edits(text: str, edits):
    lines = text.split("\n")
    for e in sorted(edits, key=lambda e: (e["range"]["start"]["line"], e["range"]["start"]["character"]), reverse=True):
        ln = e["range"]["start"]["line"]
        assert ln == e["range"]["end"]["line"]
        s, t = e["range"]["start"]["character"], e["range"]["end"]["character"]
        lines[ln] = lines[ln][:s] + e["newText"] + lines[ln][t:]
    return "\n".join(lines)


def check_occurrence(idx: int, where: int, meth: int):
    path, ln, s, e, name, ent = OCC[idx]
    spelling = name.lower()
    primary = sorted(SPELL[ent], key=lambda x: (x not in ent, x))[0]
    col = [s, (s + e) // 2, e][where]
    srv = ws.reset(SRV, FILES)
    want = expected(ent, primary)
    method = ["textDocument/references", "textDocument/documentHighlight", "textDocument/rename"][meth]
    r = ws.request(srv, method, path, ln, col)
    if r[0] != "resp":
        return f"{method} error {r}"
    if spelling != primary:
        # the request is made on a renamed local alias: it must still find the entity's own occurrences
        pass
    if meth < 2:
        if r[1] is None:
            return f"{method} on '{name}' ({ent}) at {path}:{ln}:{col} returned null, expected {len(want)} occurrences"
        got = loc_set(r[1])
        if got != want:
            miss = [x for x in want if x not in got]
            extra = [x for x in got if x not in want]
            return f"{method} on '{name}' ({ent}) at {path.split('/')[-1]}:{ln}:{col}: missing {miss} unexpected {extra}"
        return None
    if r[1] is None:
        return f"rename on '{name}' ({ent}) returned null"
    changes = r[1]["changes"]
    got = sorted((ws.path_from_uri(u), e_["range"]["start"]["line"], e_["range"]["start"]["character"], e_["range"]["end"]["character"])
                 for u, es in changes.items() for e_ in es)
    if got != want:
        miss = [x for x in want if x not in got]
        extra = [x for x in got if x not in want]
        return f"rename on '{name}' ({ent}) at {path.split('/')[-1]}:{ln}:{col}: missing {miss} unexpected {extra}"
    for u, es in changes.items():
        p = ws.path_from_uri(u)
        new = apply_edits(FILES[p], es)
        exp_lines = FILES[p].split("\n")
        for (pp, l2, s2, e2) in sorted([w for w in want if w[0] == p], key=lambda w: (w[1], w[2]), reverse=True):
            exp_lines[l2] = exp_lines[l2][:s2] + "zz_new" + exp_lines[l2][e2:]
        if new != "\n".join(exp_lines) or any(e_["newText"] != "zz_new" for e_ in es):
            return f"rename on '{name}': applying the edits changes other text"
    return None


NOCC = len(OCC)


def refs(idx: int, where: int, meth: int) -> bool:
    """occurrence idx (any identifier occurrence of any entity), cursor at its start / middle / end, method
    references / documentHighlight / rename: exactly the entity's occurrences
    pre: 0 <= idx < NOCC and 0 <= where <= 2 and 0 <= meth <= 2 and idx % NPART == PART
    post: _
    """
    tick("refs")
    idx, where, meth = conc(idx, 0, NOCC - 1), conc(where, 0, 2), conc(meth, 0, 2)
    with NoTracing():
        msg = check_occurrence(idx, where, meth)
        if msg:
            FAIL.append(msg)
    tock("refs")
    return msg is None


# ------------------------------------------------------------------------------------ matcher kernel (token lines)
TOK = ["nm", "NM", "nmx", "xnm", "nm$", "$nm", "=", "+", " ", "(", ")", ",", "%", "nm_1", "*", "-"]


def matcher(t0: int) -> bool:
    """the occurrence matcher built by get_all_references for the name 'nm' (pattern read from the current source),
    on every line of 1..5 tokens starting with token t0: every whole-word, case-insensitive occurrence (no letter,
    digit, _ or $ adjacent) is a hit with exactly the identifier's span, and nothing else is
    pre: 0 <= t0 < len(TOK) and t0 % NPART == PART
    post: _
    """
    tick("matcher")
    t0 = conc(t0, 0, len(TOK) - 1)
    ok = True
    with NoTracing():
        import inspect
        import itertools

        import fortls.langserver as L

        src = inspect.getsource(L.LangServer.get_all_references)
        m = re.search(r"NAME_REGEX = re\.compile\(\s*(rf?\".*?\")\s*,\s*re\.I\s*\)", src, re.S)
        def_name = "nm"
        rxp = re.compile(eval(m.group(1), {"def_name": def_name, "re": re}), re.I)
        for n in range(0, 5 if THOROUGH else 4):
            for rest in itertools.product(TOK, repeat=n):
                line = TOK[t0] + "".join(rest)
                got = sorted((mm.start(1), mm.end(1)) for mm in rxp.finditer(line))
                want = []
                low = line.lower()
                i = 0
                while True:
                    j = low.find("nm", i)
                    if j < 0:
                        break
                    before = line[j - 1] if j > 0 else " "
                    after = line[j + 2] if j + 2 < len(line) else " "
                    if not (before.isalnum() or before in "_$") and not (after.isalnum() or after in "_$"):
                        want.append((j, j + 2))
                    i = j + 1
                if got != want:
                    FAIL.append(f"line {line!r}: hits {got} expected {want}")
                    ok = False
                    break
            if not ok:
                break
    tock("matcher")
    return ok


# ------------------------------------------------------------------------------------ references over the USE worlds
from lib.world import W  # noqa: E402

VISW = [0, 1, -1, 2, -2]
KF_REEXPORT = kf_active("C05-reexport-private-default")
ENT_NAME = {"m1:a": "a", "m1:b": "b", "m1:c": "c", "m1:ex": "ex", "m2:d": "d", "main:a": "a", "inner:a": "a"}


def check_world_refs(w: W, meth: int):
    files = w.files()
    if not w.conforming():
        return None
    srv = ws.reset(SRV, files)
    method = ["textDocument/references", "textDocument/documentHighlight"][meth]
    by_ent = {}
    for path, line, col, name, scope in w.sites:
        e = w.resolve(scope, name)
        if e in (None, "AMBIGUOUS"):
            continue
        by_ent.setdefault(e, []).append((path, line, col, name))
    site_ent = {(p, ln, c): w.resolve(sc, n) for p, ln, c, n, sc in w.sites}
    for ent, (dpath, dline, dcol) in w.decl.items():
        if ent not in ENT_NAME:
            continue
        r0 = ws.request(srv, method, dpath, dline, dcol)
        if r0[0] != "resp" or r0[1] is None:
            return f"{method} on the declaration of {ent} ({dpath}:{dline}:{dcol}) -> {r0}\n" + C5dump(files)
        base = loc_set(r0[1])
        if meth == 1:  # documentHighlight: this file only
            own = [s_ for s_ in by_ent.get(ent, []) if s_[0] == dpath]
        else:
            own = by_ent.get(ent, [])
        # the declaration itself is an occurrence
        if (dpath, dline, dcol, dcol + len(ENT_NAME[ent])) not in base:
            return f"{method} of {ent}: the declaration {dpath}:{dline}:{dcol} is not among {base}\n" + C5dump(files)
        for (p, ln, c, n) in own:
            if n != ENT_NAME[ent]:
                continue  # renamed local alias: known finding C06-use-rename-clause
            if (p, ln, c, c + len(n)) not in base:
                return f"{method} of {ent} misses its use at {p}:{ln}:{c} (answer {base})\n" + C5dump(files)
            # the same set from whichever occurrence
            r1 = ws.request(srv, method, p, ln, c + 1 if len(n) > 1 else c)
            got1 = loc_set(r1[1]) if r1[0] == "resp" and r1[1] is not None else r1
            want1 = base if meth == 0 or p == dpath else None
            if want1 is not None and got1 != want1:
                return f"{method} of {ent} from the use at {p}:{ln}:{c} -> {got1}, from the declaration -> {base}\n" + C5dump(files)
        # nothing bound to a different entity (or to nothing) may be returned
        for (p, ln, c, e_) in base:
            if (p, ln, c) in site_ent and site_ent[(p, ln, c)] != ent:
                other = site_ent[(p, ln, c)]
                if KF_REEXPORT and other is None and w.m2_private and w.target == "m2":
                    continue  # known finding C05-reexport-private-default: resolved although inaccessible
                return f"{method} of {ent} returns {p}:{ln}:{c}, which is bound to {other}\n" + C5dump(files)
    return None


def C5dump(files):
    return "\n".join(f"--- {p}\n" + "\n".join(f"{i}: {ln}" for i, ln in enumerate(t.split("\n"))) for p, t in files.items())


def refs_worlds(va: int, u21: int, up: int, meth: int) -> bool:
    """the USE/accessibility worlds of lib/world.py (accessibility of a x how m2 uses m1 x how main uses its module
    symbolic; default PRIVATE, re-export, target, local/host declarations, second USE enumerated inside): for every
    declared entity, references / documentHighlight from the declaration contain the declaration and every use site
    the reference resolver binds to it, contain no use site bound to something else, and are the same from every
    such use site
    pre: 0 <= va <= 4 and 0 <= u21 <= 3 and 0 <= up <= 5 and 0 <= meth <= 1 and (va * 7 + u21 * 3 + up) % NPART == PART
    post: _
    """
    tick("refs_worlds")
    va, u21, up, meth = conc(va, 0, 4), conc(u21, 0, 3), conc(up, 0, 5), conc(meth, 0, 1)
    ok = True
    with NoTracing():
        import itertools

        vbs = (0, -1, 2) if THOROUGH else (0,)
        las = range(4) if THOROUGH else (0, 3)
        for m1p, vb, m2p, m2pub, target, la, su in itertools.product((False, True), vbs, (False, True), (False, True), ("m1", "m2"), las, (0, 1)):
            w = W(m1p, VISW[va], vb, 0, u21, m2p, m2pub, target, up, la, su)
            msg = check_world_refs(w, meth)
            if msg:
                FAIL.append(msg)
                ok = False
                break
    tock("refs_worlds")
    return ok
