"""C04 - outline and workspace symbols mirror the program's block structure.

Real code executed: the parser (add_scope/end_scope pairing, parse_end_scope_word, parse_do_fixed_format,
close_file), serve_document_symbols, serve_workspace_symbol, find_in_workspace, symbol_json/range_json.
(S) genuinely symbolic: FortranAST.add_scope/end_scope/close_file + get_inner_scope on scope sequences with FREE
    symbolic line numbers; range_json for all ints (C09.P2).
(G) generated programs: module with variable / type (+binding) / interface (3 forms) / two module procedures with
    every executable construct nested in every other / internal procedure, followed by a second unit (program,
    external subroutine, external function, submodule); END statement variants; blank-line gaps.
    Oracle = the generator's own stack machine.
"""
import os

from crosshair.tracers import NoTracing

from lib.hx import conc, npart, part, silence, tick, tock

silence()
from lib import gen, ws  # noqa: E402
from lib.gen import Layout, Prog  # noqa: E402

from fortls.parsers.internal.ast import FortranAST  # noqa: E402
from fortls.parsers.internal.parser import FortranFile  # noqa: E402
from fortls.parsers.internal.module import Module  # noqa: E402
from fortls.parsers.internal.subroutine import Subroutine  # noqa: E402
from fortls.parsers.internal.block import Block  # noqa: E402

PART, NPART = part(), npart()
THOROUGH = os.environ.get("VERIF_TIER", "quick") == "thorough"
SRV = ws.make_server()
PATH = ws.ROOT + "/prog.f90"
KIND = {"module": 2, "program": 2, "submodule": 2, "sub": 12, "fun": 12, "type": 5, "interface": 11}
NE = gen.N_EXEC
FAIL = []


def build(i1: int, n1: int, ev: int, b: bool, f: int, nn: bool, u2: int) -> Prog:
    p = Prog()
    E = gen.EXEC_ITEMS
    p._open("module", "m1", "module m1")
    p.stmt("implicit none")
    p.var("mv1")
    gen.add_type(p, 1, ev, b)
    if b:
        gen.add_type(p, 3, ev, False, parent="t1")
    gen.add_interface(p, 2, ev, f)
    p.stmt("contains", kind="contains")
    body1 = [(E[i1], E[n1] if n1 >= 0 else -1)]
    i2, n2 = (i1 + 3) % NE, (n1 + 5) % NE if n1 >= 0 else -1
    gen.add_proc(p, 1, ev, False, body1, nn)
    gen.add_proc(p, 2, ev, True, [(E[i2], E[n2] if n2 >= 0 else -1), (E[i1], -1), (E[(i1 + 1) % NE], -1)], False)
    p.end(ev)
    if u2 == 1:
        p._open("program", "p1", "program p1")
        p.var("pv")
        gen.add_item(p, E[i2], ev, [700], 0, E[i1])
        p.stmt("contains", kind="contains")
        p._open("sub", "pin", "subroutine pin()")
        p.end(ev)
        p.end(ev)
    elif u2 == 2:
        gen.add_proc(p, 7, ev, False, body1, True)
    elif u2 == 3:
        gen.add_proc(p, 8, ev, True, body1, False)
    elif u2 == 4:
        p._open("submodule", "sm1", "submodule (m1) sm1")
        p.links.append(("submodule", "sm1", "m1"))
        p.var("smv")
        p.stmt("contains", kind="contains")
        gen.add_proc(p, 9, ev, False, body1, False)
        p.end(ev)
    return p


def expected_symbols(p: Prog, line_of):
    exp = []
    for sc in p.scopes:
        if sc.kind not in KIND or sc.name.startswith("#"):
            continue
        depth = 0
        par = sc.parent
        chain = []
        while par is not None:
            chain.append(p.scopes[par])
            par = p.scopes[par].parent
        if len(chain) > 1:
            continue  # not directly inside a program unit
        if chain and chain[0].kind not in ("module", "program", "submodule", "sub", "fun"):
            continue
        cont = chain[0].name if chain else None
        exp.append((sc.name, KIND[sc.kind], cont, line_of[sc.open_st], line_of[sc.close_st]))
        if sc.kind == "type":
            for name, mk, si in sc.members:
                exp.append((name, 13 if mk == "var" else 6, sc.name, line_of[si], line_of[si]))
    return exp


def check_outline(p: Prog, lay: Layout):
    lines, line_of = gen.layout(p, lay)
    srv = ws.reset(SRV, {PATH: lay.eol.join(lines) + lay.eol})
    r = ws.request(srv, "textDocument/documentSymbol", PATH, 0, 0)
    if r[0] != "resp":
        return f"documentSymbol error {r}"
    got = [(s["name"], s["kind"], s.get("containerName"), s["location"]["range"]["start"]["line"],
            s["location"]["range"]["end"]["line"]) for s in r[1]]
    for e in expected_symbols(p, line_of):
        same = [g for g in got if g[0].lower() == e[0].lower() and (g[2] or "").lower() == (e[2] or "").lower()]
        if len(same) != 1:
            return f"symbol {e} appears {len(same)} times: {same}\n" + "\n".join(f"{i}: {ln}" for i, ln in enumerate(lines))
        g = same[0]
        if (g[1], g[3], g[4]) != (e[1], e[3], e[4]):
            return f"symbol {e} reported as {g}\n" + "\n".join(f"{i}: {ln}" for i, ln in enumerate(lines))
    # no error diagnostics on these valid programs (scope pairing errors would show here)
    for d in ws.diagnostics(srv, PATH):
        if d["severity"] == 1:
            return f"unexpected error diagnostic {d['message']} line {d['range']['start']['line']}\n" + "\n".join(f"{i}: {ln}" for i, ln in enumerate(lines))
    return None


def outline(i1: int, ev: int, gap: int) -> bool:
    """first construct i1 and END-statement variant ev symbolic; nested construct, type binding, interface form,
    internal procedure, second unit enumerated inside; a blank line / comment gap before statement `gap`
    pre: 0 <= i1 < NE and 0 <= ev <= 3 and 0 <= gap <= 2 and (i1 * 4 + ev) % NPART == PART
    post: _
    """
    tick("outline")
    i1, ev, gap = conc(i1, 0, NE - 1), conc(ev, 0, 3), conc(gap, 0, 2)
    ok = True
    with NoTracing():
        for n1 in range(-1, NE):
            for u2 in range(5):
                for b, f, nn in ((False, 0, False), (True, 1, True), (True, 2, False)) if not THOROUGH else \
                        [(b, f, nn) for b in (False, True) for f in range(3) for nn in (False, True)]:
                    p = build(i1, n1, ev, b, f, nn, u2)
                    lay = Layout(blank_before=(None, 5, 12)[gap], comment_before=(None, 9, 3)[gap])
                    msg = check_outline(p, lay)
                    if msg:
                        FAIL.append(msg)
                        ok = False
                        break
                if not ok:
                    break
            if not ok:
                break
    tock("outline")
    return ok


# ------------------------------------------------------------------------------------ workspace symbols
def ws_symbols(i1: int, q: int, qcase: int) -> bool:
    """workspace/symbol: exactly the top-level units and module members whose name contains the query
    (case-insensitively), sorted by name; query = every substring (length 1..3) of the declared names, each
    in lower / upper / mixed case, plus non-matching strings
    pre: 0 <= i1 < NE and 0 <= q <= 60 and 0 <= qcase <= 2 and (i1 + q) % NPART == PART
    post: _
    """
    tick("ws_symbols")
    i1, q, qcase = conc(i1, 0, NE - 1), conc(q, 0, 60), conc(qcase, 0, 2)
    ok = True
    with NoTracing():
        p = build(i1, -1, 0, True, 0 if q % 2 else 2, False, 2)
        lines, line_of = gen.layout(p, Layout())
        p2 = Prog()
        p2._open("module", "m2", "module m2")
        p2.var("Mv1x")
        p2.var("zeta")
        p2.var("mv1")  # same name as a member of m1: both must be returned
        gen.add_type(p2, 5, 0, False)
        p2._open("interface", "t5", "interface t5")  # constructor idiom: a generic named like the type, both are members
        p2.stmt("module procedure mk5")
        p2.end(0)
        p2.end(0)
        l2, _ = gen.layout(p2, Layout())
        srv = ws.reset(SRV, {PATH: "\n".join(lines) + "\n", ws.ROOT + "/m2.f90": "\n".join(l2) + "\n"})
        members = [("m1", None), ("mv1", "m1"), ("t1", "m1"), ("t3", "m1")] + ([("g2", "m1")] if q % 2 else []) + [("s1", "m1"), ("s2", "m1"), ("s7", None), ("m2", None), ("Mv1x", "m2"), ("zeta", "m2"), ("mv1", "m2"), ("t5", "m2"), ("t5", "m2")]
        names = sorted({n[0].lower()[i:i + k] for n in members for k in (1, 2, 3) for i in range(len(n[0]) - k + 1)})
        # regex metacharacters are ordinary characters of a query: none of them occurs in a name
        queries = names + ["qq", "m1x", "#", "s9", ".", "$", "^m", "m*", "[a-z]", "m.1", "m1|m2", "t1(", "\\w", "s?"]
        if q >= len(queries):
            return True
        query = queries[q]
        query = query.upper() if qcase == 1 else query.capitalize() if qcase == 2 else query
        n0 = len(srv.conn.out)
        srv.handle({"jsonrpc": "2.0", "id": 3, "method": "workspace/symbol", "params": {"query": query}})
        outs = [o for o in srv.conn.out[n0:] if o[0] != "notif"]
        if len(outs) != 1 or outs[0][0] != "resp":
            FAIL.append(str(outs))
            return False
        got = [(s["name"], s.get("containerName")) for s in outs[0][2]]
        want = sorted([(n, c) for n, c in members if query.lower() in n.lower()], key=lambda t: t[0])
        gotn = [(n.lower(), (c or "").lower()) for n, c in got if not n.startswith("#")]
        wantn = [(n.lower(), (c or "").lower()) for n, c in want]
        if sorted(gotn) != sorted(wantn) or [g[0] for g in got] != sorted(g[0] for g in got):
            FAIL.append(f"query {query!r}: got {got} want {want}")
            ok = False
        if any(n.startswith("#") for n, _ in got):
            FAIL.append(f"query {query!r}: placeholder name leaked: {got}")
            ok = False
    tock("ws_symbols")
    return ok


# ------------------------------------------------------------------------------------ (S) symbolic line numbers
def scope_lines(l0: int, d1: int, d2: int, d3: int, d4: int, q: int) -> bool:
    """add_scope/end_scope/close_file and get_inner_scope with FREE symbolic line numbers:
    module [l0 .. l0+d1+d2+d3+d4], subroutine inside [l0+d1 .. l0+d1+d2+d3], block inside the subroutine;
    every line q is attributed to the innermost construct containing it
    pre: 1 <= l0 and 1 <= d1 and 1 <= d2 and 1 <= d3 and 1 <= d4 and 0 <= q
    post: _
    """
    tick("scope_lines")
    f = FortranFile("/w/a.f90")
    ast = FortranAST(f)
    m = Module(ast, l0, "m")
    ast.add_scope(m, None)
    s = Subroutine(ast, l0 + d1, "s")
    ast.add_scope(s, None)
    b = Block(ast, l0 + d1 + d2, "#BLOCK1")
    ast.add_scope(b, None, req_container=True)
    ast.end_scope(l0 + d1 + d2 + d3)          # end block
    ast.end_scope(l0 + d1 + d2 + d3 + d4)     # end subroutine
    end_m = l0 + d1 + d2 + d3 + d4 + 1
    ast.close_file(end_m)                     # module left open: closed at EOF
    ok = (m.sline, m.eline) == (l0, end_m) and (s.sline, s.eline) == (l0 + d1, l0 + d1 + d2 + d3 + d4)
    ok = ok and (b.sline, b.eline) == (l0 + d1 + d2, l0 + d1 + d2 + d3)
    ok = ok and b.parent is s and s.parent is m and m.parent is None and ast.current_scope is None
    inner = ast.get_inner_scope(q)
    if q < l0 or q > end_m:
        want = None
    elif b.sline <= q <= b.eline:
        want = b
    elif s.sline <= q <= s.eline:
        want = s
    else:
        want = m
    ok = ok and inner is want
    tock("scope_lines")
    return ok


def symbol_lines(l0: int, d1: int, d2: int, d3: int, d4: int) -> bool:
    """serve_document_symbols TRACED on an index built with the real constructors and FREE symbolic line numbers:
    module [l0 .. end], type inside, subroutine inside; reported 0-based start/end lines, kinds and containers
    pre: 1 <= l0 and 1 <= d1 and 1 <= d2 and 1 <= d3 and 1 <= d4
    post: _
    """
    tick("symbol_lines")
    from fortls.parsers.internal.type import Type
    from fortls.parsers.internal.variable import Variable
    import fortls.langserver as L

    f = FortranFile("/w/a.f90")
    ast = FortranAST(f)
    m = Module(ast, l0, "m")
    ast.add_scope(m, None)
    t = Type(ast, l0 + d1, "t", [])
    ast.add_scope(t, None, req_container=True)
    c = Variable(ast, l0 + d1 + 1, "comp", "INTEGER", [])
    ast.add_variable(c)
    ast.end_scope(l0 + d1 + d2)
    s = Subroutine(ast, l0 + d1 + d2 + d3, "s")
    ast.add_scope(s, None)
    ast.end_scope(l0 + d1 + d2 + d3 + d4)
    end_m = l0 + d1 + d2 + d3 + d4 + 1
    ast.end_scope(end_m)
    ast.close_file(end_m)
    f.ast = ast
    srv = SRV
    real = L.path_from_uri
    L.path_from_uri = lambda uri: "/w/a.f90"
    old_ws = srv.workspace
    srv.workspace = {"/w/a.f90": f}
    try:
        out = srv.serve_document_symbols({"params": {"textDocument": {"uri": "file:///w/a.f90"}}})
    finally:
        L.path_from_uri = real
        srv.workspace = old_ws
    got = [(o["name"], o["kind"], o.get("containerName"), o["location"]["range"]["start"]["line"], o["location"]["range"]["end"]["line"]) for o in out]
    want = [("m", 2, None, l0 - 1, end_m - 1), ("t", 5, "m", l0 + d1 - 1, l0 + d1 + d2 - 1), ("comp", 13, "t", l0 + d1, l0 + d1),
            ("s", 12, "m", l0 + d1 + d2 + d3 - 1, l0 + d1 + d2 + d3 + d4 - 1)]
    ok = got == want
    tock("symbol_lines")
    return ok


# ------------------------------------------------------------------------------------ outline after single-line edits
SRV_INC = ws.make_server(("--incremental_sync", "--disable_autoupdate"))
SRV_REF = ws.make_server(("--incremental_sync", "--disable_autoupdate"))


def edited_outline(i1: int, ln: int, kind: int) -> bool:
    """incremental sync: one single-line edit of a generated program (kind 0: '!' inserted in column 1, i.e. the
    statement becomes a comment; 1: the '!' removed again; 2: a blank inserted; 3: the first non-blank character
    deleted) at every line: the outline afterwards equals the outline a fresh server gives for the edited text
    pre: 0 <= i1 < NE and 0 <= ln <= 70 and 0 <= kind <= 3 and (i1 + ln) % NPART == PART
    post: _
    """
    tick("edited_outline")
    i1, ln, kind = conc(i1, 0, NE - 1), conc(ln, 0, 70), conc(kind, 0, 3)
    ok = True
    with NoTracing():
        p = build(i1, -1, 1, True, 0, False, 2)
        lines, _ = gen.layout(p, Layout())
        if ln < len(lines):
            text = "\n".join(lines) + "\n"
            srv = ws.reset(SRV_INC, {PATH: text})
            uri = "file://" + PATH

            def change(sc, ec, new):
                srv.handle({"jsonrpc": "2.0", "method": "textDocument/didChange", "params": {"textDocument": {"uri": uri}, "contentChanges": [
                    {"range": {"start": {"line": ln, "character": sc}, "end": {"line": ln, "character": ec}}, "text": new}]}})

            cur = list(lines)
            first = len(cur[ln]) - len(cur[ln].lstrip())
            if kind in (0, 1):
                change(0, 0, "!")
                cur[ln] = "!" + cur[ln]
                if kind == 1:
                    change(0, 1, "")
                    cur[ln] = cur[ln][1:]
            elif kind == 2:
                change(0, 0, " ")
                cur[ln] = " " + cur[ln]
            elif len(cur[ln].strip()) > 0:
                change(first, first + 1, "")
                cur[ln] = cur[ln][:first] + cur[ln][first + 1:]
            got = ws.request(srv, "textDocument/documentSymbol", PATH, 0, 0)
            ref = ws.reset(SRV_REF, {PATH: "\n".join(cur) + "\n"})
            want = ws.request(ref, "textDocument/documentSymbol", PATH, 0, 0)
            if got != want:
                FAIL.append(f"after edit kind {kind} on line {ln} ({lines[ln]!r}): outline {got} fresh {want}")
                ok = False
    tock("edited_outline")
    return ok
