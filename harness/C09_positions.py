"""C09 - every positional request is total; every returned range lies in its document.

(P2) genuinely symbolic: free short strings and free ints through the cursor
     helpers get_line_prefix / get_paren_level / find_paren_match and the
     range templates range_json / uri_json / change_json / diagnostic_json.
(P3) sweep: the (document, line) pair is a symbolic index forked by the
     solver; for that line every column 0..len+1 and all 9 positional methods
     are sent to the real server (concrete run, NoTracing) over an in-memory
     workspace: synthetic documents rich in constructs, broken documents,
     a preprocessed document, and (thorough) the repository's own test
     sources.  Also every published diagnostic range is checked.
(P4) every bundled intrinsic procedure / keyword / statement as the word
     under the cursor.
"""
import glob
import os

from crosshair.tracers import NoTracing

from lib.hx import conc, npart, part, tick, tock
from lib import ws

from fortls.ftypes import Range  # noqa: E402
from fortls.helper_functions import find_paren_match, get_line_prefix, get_paren_level  # noqa: E402
from fortls.json_templates import change_json, diagnostic_json, range_json, uri_json  # noqa: E402
from fortls.parsers.internal.intrinsics import get_intrinsic_keywords  # noqa: E402

PART, NPART = part(), npart()
THOROUGH = os.environ.get("VERIF_TIER", "quick") == "thorough"
SRV = ws.make_server()
FS = 4 if THOROUGH else 3
R = ws.ROOT

MOD = """module shapes
  use, intrinsic :: iso_fortran_env, only: wp => real64, int32
  implicit none
  private
  public :: shape_t, circle_t, area, n_made, make
  integer :: n_made = 0
  real(wp), parameter :: pi = 3.14_wp
  !> A shape
  type, abstract :: shape_t
    integer :: id = 0
    character(len=:), allocatable :: label
  contains
    procedure(area_if), deferred :: area
    procedure :: describe => shape_describe
    generic :: show => describe
  end type shape_t
  type, extends(shape_t) :: circle_t
    real(wp) :: r = 1.0_wp
    type(circle_t), pointer :: next => null()
  contains
    procedure :: area => circle_area
  end type circle_t
  abstract interface
    function area_if(self) result(a)
      import :: shape_t, wp
      class(shape_t), intent(in) :: self
      real(wp) :: a
    end function area_if
  end interface
  interface make
    module procedure make_circle, make_default
  end interface make
  interface
    module subroutine sub_in_submod(x, y)
      integer, intent(in) :: x
      real(wp), intent(out), optional :: y
    end subroutine sub_in_submod
  end interface
contains
  subroutine shape_describe(self, unit)
    class(shape_t), intent(in) :: self
    integer, intent(in), optional :: unit !< output unit
    print *, 'shape "id"', self%id, self%label
  end subroutine shape_describe
  function circle_area(self) result(a)
    class(circle_t), intent(in) :: self
    real(wp) :: a
    a = pi * self%r**2
  end function circle_area
  function make_circle(r) result(c)
    real(wp), intent(in) :: r
    type(circle_t) :: c
    c%r = r; n_made = n_made + 1
  end function make_circle
  function make_default() result(c)
    type(circle_t) :: c
    c = make_circle(1.0_wp)
  end function make_default
  real(wp) function area(s)
    class(shape_t), intent(in) :: s
    area = s%area()
  end function area
end module shapes
"""
SUBMOD = """submodule (shapes) shapes_impl
contains
  module subroutine sub_in_submod(x, y)
    integer, intent(in) :: x
    real(wp), intent(out), optional :: y
    if (present(y)) y = real(x, wp)
  end subroutine sub_in_submod
end submodule shapes_impl
"""
PROG = """program main
  use shapes, only: circle_t, total => n_made, make, area
  use missing_mod
  implicit none
  type(circle_t), target :: c, arr(3)
  class(circle_t), pointer :: p => null()
  integer :: i, total2
  character(len=20) :: s = 'it''s "quoted" ! not a comment'
  real, external :: ext_fun
  c = make(2.0d0)
  p => c
  call c%describe(unit=6)
  call c%show()
  print *, c%area(), area(c), p%next%r, arr(2)%next%r, total
  do i = 1, 3
    arr(i)%r = real(i) &
      & + c%r   ! trailing comment with c
  end do
  associate (q => c%r, w => arr(1))
    total2 = int(q) + size(arr) + abs(-1) + w%id
  end associate
  select type (z => p)
  type is (circle_t)
    z%r = 1.
  class default
    i = 0
  end select
  block
    integer :: i
    i = 100; total2 = i
  end block
  if (.true. .and. i == 1e3) then
    where (arr%r > 0.) arr%r = 0.
  end if
contains
  subroutine inner(a, b)
    integer, intent(in) :: a
    real, intent(inout), dimension(:) :: b
    b(a) = ext_fun(b(1))
  end subroutine inner
end program main
"""
BROKEN = """module broken
  integer :: a(
  type :: t
    integer :: x
  real function f(x
  character(len=*) :: s = 'unterminated
  call foo(a, (b, "x
  use shapes, only:
  procedure(
  type(t) ::
  end
end function
  x%y%z = w%
  associate(, a=>b)
  integer, p
"""
PP = """#define NMAX 100
#define M missing_module_with_a_long_name
#define WP selected_real_kind(15, 307)
#define SQR(x) ((x)*(x))
#if defined(NMAX) && NMAX > 10
module ppmod
  use M
  integer :: arr(NMAX)
  real(WP) :: xw
  real V
contains
  subroutine s(V)
    real V
    V = SQR(V)
    xw = xw + arr(NMAX)
  end subroutine s
end module ppmod
#else
module other
end module other
#endif
"""
TOPLEVEL = """integer, p
integer :: loose
loose = 1
call nothing(loose)
procedure(foo) :: bar
contains
implicit none
public :: x
import :: y
end
"""
FIXED = """C     fixed form
      SUBROUTINE FSUB(A,B)
      INTEGER A
      REAL B(10)
      DO 10 I=1,10
      DO 10 J=1,10
         B(I) = A +
     &     J
   10 CONTINUE
      END SUBROUTINE
"""
DEFERRED = """module dm
  type, abstract :: base_t
  contains
    procedure(run_if), deferred :: run
    procedure(run_if), deferred :: stop
  end type base_t
  type, extends(base_t) :: impl_t
    integer :: k
  end type impl_t
  abstract interface
    subroutine run_if(self, n)
      import :: base_t
      class(base_t), intent(inout) :: self
      integer, intent(in), optional :: n
    end subroutine run_if
  end interface
contains
  subroutine other()
  end subroutine other
end module dm
"""
TINY = {f"{R}/t_vis.f90": "public :: foo\n", f"{R}/t_vis2.f90": "module tv\n  integer :: zz\nend module tv\nprivate :: zz\npublic\n",
        f"{R}/deferred.f90": DEFERRED, f"{R}/t_kw.f90": "integer, p\n", f"{R}/t_empty.f90": "", f"{R}/t_comment.f90": "! only a comment\n\n",
        f"{R}/t_call.f90": "call x%y(\nuse \ntype(\nend\n", f"{R}/t_pp.F90": "#if X\n#define Y(a) a\nY(\n"}
DOCS = {**TINY, f"{R}/shapes.f90": MOD, f"{R}/shapes_impl.f90": SUBMOD, f"{R}/main.f90": PROG, f"{R}/broken.f90": BROKEN,
        f"{R}/ppmod.F90": PP, f"{R}/toplevel.f90": TOPLEVEL, f"{R}/fixed.f": FIXED}

from harness.extra_docs import EXTRA as _EXTRA  # noqa: E402

DOCS.update({f"{R}/{k}": v for k, v in _EXTRA.items()})

# (P4) one line per intrinsic / keyword / statement
_names = sorted({o.name for o in SRV.intrinsic_funs} | {o.name for o in get_intrinsic_keywords(SRV.statements, SRV.keywords, 0)}
                | {o.name for o in get_intrinsic_keywords(SRV.statements, SRV.keywords, 1)})
INTR_LINES = ["program intr", "real :: x"] + [f"x = {n}(x, " for n in _names] + [f"{n} x" for n in _names] + ["end program intr"]
DOCS[f"{R}/intr.f90"] = "\n".join(INTR_LINES) + "\n"

if THOROUGH:
    _root = "/repo/test/test_source"
    for _f in sorted(glob.glob(_root + "/**/*", recursive=True)):
        if os.path.isfile(_f) and os.path.splitext(_f)[1].lower() in (".f90", ".f", ".f08", ".f03", ".f95", ".for", ".fpp", ".h"):
            try:
                _t = open(_f, encoding="utf-8", errors="replace").read().replace("\t", " ")
            except OSError:
                continue
            DOCS[f"{R}/ts/" + os.path.relpath(_f, _root)] = _t

PATHS = sorted(DOCS)
NL = {p: len(DOCS[p].split("\n")) for p in PATHS}
MAXL = max(NL.values())
ws.reset(SRV, DOCS)
_FAIL = []


def _jsonable(x) -> bool:
    import json

    try:
        json.dumps(x)
        return True
    except (TypeError, ValueError):
        return False


def check_line(path: str, line: int, srv=None) -> bool:
    srv = srv or SRV
    lines = ws.doc_lines(srv, path)
    if lines is None:
        return False
    width = len(lines[line]) if 0 <= line < len(lines) else 3
    cols = range(0, width + 2)
    if path.endswith("/intr.f90") and width > 6:  # one name per line: inside / after the name, after "(", end, past end
        cols = sorted({0, 5, width - 5, width - 4, width - 2, width, width + 1})
    for col in cols:
        for meth in ws.POSITIONAL:
            r = ws.request(srv, meth, path, line, col)
            if r[0] != "resp" or not ws.ranges_ok(srv, meth, path, r[1]) or not _jsonable(r[1]):
                _FAIL.append((path, line, col, meth, str(r)[:300]))
                return False
    return True


def sweep(fi: int, line: int) -> bool:
    """(P3/P4) all columns x all positional methods on one (document, line), including one line past the end
    pre: 0 <= fi < len(PATHS) and 0 <= line <= MAXL and (fi * 7 + line) % NPART == PART
    post: _
    """
    tick("sweep")
    fi = conc(fi, 0, len(PATHS) - 1)
    path = PATHS[fi]
    if line > NL[path]:
        return True
    line = conc(line, 0, NL[path])
    with NoTracing():
        res, hung = ws.guarded(lambda: check_line(path, line), 60)
    ok = bool(res) and not hung
    tock("sweep")
    return ok


OPTSETS = [["--disable_diagnostics", "--enable_code_actions"], ["--autocomplete_no_prefix", "--autocomplete_name_only"],
           ["--hover_signature", "--lowercase_intrinsics", "--sort_keywords"], ["--symbol_skip_mem", "--autocomplete_no_snippets"],
           ["--enable_code_actions", "--use_signature_help", "--max_line_length", "20", "--max_comment_line_length", "10"], []]
OPT_DOCS = [f"{R}/deferred.f90", f"{R}/main.f90", f"{R}/toplevel.f90", f"{R}/ppmod.F90"]
_OPT_SRV = {}


def _opt_server(o: int):
    if o not in _OPT_SRV:
        srv = ws.make_server(tuple(["--incremental_sync", "--disable_autoupdate"] + OPTSETS[o]))
        _OPT_SRV[o] = ws.reset(srv, DOCS)
    return _OPT_SRV[o]


def opt_sweep(o: int, d: int, line: int) -> bool:
    """the same sweep under other option sets (diagnostics disabled + code actions, name-only / no-prefix
    completion, hover signature + lowercase intrinsics + sorted keywords, ...) on four documents
    pre: 0 <= o < len(OPTSETS) and 0 <= d < len(OPT_DOCS) and 0 <= line <= 45 and (o * 4 + d + line) % NPART == PART
    post: _
    """
    tick("opt_sweep")
    o, d = conc(o, 0, len(OPTSETS) - 1), conc(d, 0, len(OPT_DOCS) - 1)
    path = OPT_DOCS[d]
    if line > NL[path]:
        return True
    line = conc(line, 0, NL[path])
    with NoTracing():
        res, hung = ws.guarded(lambda: check_line(path, line, _opt_server(o)), 60)
    ok = bool(res) and not hung
    tock("opt_sweep")
    return ok


def diags(fi: int) -> bool:
    """every published diagnostic addresses an existing place; documentSymbol ranges too
    pre: 0 <= fi < len(PATHS)
    post: _
    """
    tick("diags")
    fi = conc(fi, 0, len(PATHS) - 1)
    path = PATHS[fi]
    with NoTracing():
        ds = ws.diagnostics(SRV, path)
        ok = all(ws._pos_ok(SRV, path, d["range"]) for d in ds)
        for d in ds:
            for rel in d.get("relatedInformation", []):
                loc = rel["location"]
                ok = ok and (ws._pos_ok(SRV, loc["uri"], loc["range"]))
        r = ws.request(SRV, "textDocument/documentSymbol", path, 0, 0)
        ok = ok and r[0] == "resp"
        if ok:
            n = len(ws.doc_lines(SRV, path))
            for sym in r[1]:
                rg = sym["location"]["range"]
                ok = ok and 0 <= rg["start"]["line"] <= rg["end"]["line"] < n
    tock("diags")
    return ok


# ------------------------------------------------------------------ (P2) symbolic cursor arithmetic
def prefix_free(s: str, col: int, has_pre: bool, qs: bool) -> bool:
    """get_line_prefix never raises; it answers None exactly when the cursor is past the end of the line,
    on a preprocessor line, or (qs) inside an open character literal; otherwise the text before the cursor
    pre: len(s) <= 2 and -1 <= col <= 4 and s.isascii()
    post: _
    """
    tick("prefix_free")
    pre = "a'" if has_pre else ""
    r = get_line_prefix([pre] if has_pre else [], s, col, qs)
    if col > len(s) or s.startswith("#"):
        ok = r is None
    elif r is None:
        ok = qs  # only the string-literal guard may reject an in-range cursor
    else:
        ok = len(r) == max(col, 0) + len(pre) if col >= 0 else True
    tock("prefix_free")
    return ok


def paren_free(s: str) -> bool:
    """get_paren_level / find_paren_match on a free string: no exception, sections inside the line, text = join
    pre: len(s) <= FS
    post: _
    """
    tick("paren_free")
    out, sections = get_paren_level(s)
    ok = len(sections) >= 1
    for sec in sections:
        ok = ok and 0 <= sec.start <= len(s) and 0 <= sec.end <= len(s)
    ok = ok and out == "".join(s[sec.start:sec.end] for sec in sections)
    i = find_paren_match(s)
    ok = ok and (i == -1 or (0 <= i < len(s) and s[i] == ")"))
    tock("paren_free")
    return ok


def ranges_int(sl: int, sc: int, ec: int, dl: int) -> bool:
    """range templates for every single-line range (and multi-line ones ending at column > 0):
    what is emitted is what was requested
    pre: 0 <= sl and 0 <= sc and sc <= ec and 0 <= dl
    pre: dl == 0 or ec > 0
    post: _
    """
    tick("ranges_int")
    el = sl + dl
    want = {"start": {"line": sl, "character": sc}, "end": {"line": el, "character": ec}}
    ok = range_json(sl, sc, el, ec)["range"] == want
    ok = ok and uri_json("u", sl, sc, el, ec)["range"] == want
    ok = ok and change_json("t", sl, sc, el, ec)["range"] == want
    ok = ok and diagnostic_json(sl, sc, el, ec, "m", 1)["range"] == want
    tock("ranges_int")
    return ok
