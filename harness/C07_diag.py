"""C07 - diagnostics: silent on valid programs, present on each documented defect.

Real code executed through the real server (didOpen -> check_file): Scope.check_definitions / check_use,
Variable.check_definition, Subroutine.get_diagnostics, Type.get_diagnostics, check_valid_parent,
FortranAST.check_file, parse_implicit / parse_contains / parse_end_scope_word, the line-length check,
Diagnostic.build, send_diagnostics.

(D) a valid base program (no error diagnostic) into which each documented defect class is seeded at every
    applicable position; a symbolic number of blank lines above shifts every line.  Oracle: a diagnostic with the
    class's message and severity on the offending line, and no error of any other class.
(S) genuinely symbolic: the line comparisons of check_definitions / check_use with FREE symbolic line numbers on
    objects built with the real constructors.
"""
import os
import re

from crosshair.tracers import NoTracing

from lib.hx import conc, npart, part, silence, tick, tock

silence()
from lib import ws  # noqa: E402

from fortls.parsers.internal.ast import FortranAST  # noqa: E402
from fortls.parsers.internal.module import Module  # noqa: E402
from fortls.parsers.internal.parser import FortranFile  # noqa: E402
from fortls.parsers.internal.subroutine import Subroutine  # noqa: E402
from fortls.parsers.internal.use import Use  # noqa: E402

PART, NPART = part(), npart()
THOROUGH = os.environ.get("VERIF_TIER", "quick") == "thorough"
SRV = ws.make_server(("--incremental_sync", "--disable_autoupdate", "--max_line_length", "60", "--max_comment_line_length", "80"))
R = ws.ROOT
FAIL = []

LIB = """module lib
  implicit none
  private
  public :: base_t, hidden_pub, secret_t
  type, abstract :: base_t
    integer :: id
  contains
    procedure(run_if), deferred :: run
  end type base_t
  type :: secret_t
    integer :: s
  end type secret_t
  integer :: hidden_pub
  abstract interface
    subroutine run_if(self)
      import :: base_t
      class(base_t), intent(inout) :: self
    end subroutine run_if
  end interface
end module lib
"""
BASE = """module m
  use lib, only: base_t
  use, intrinsic :: iso_fortran_env, only: real64
  implicit none
  integer :: counter
  real(real64) :: scale
  interface impl_t
    module procedure make_impl
  end interface impl_t
  interface
    subroutine ext_two(a, b, c)
      import :: base_t
      import :: impl_t, real64
      class(base_t) :: a
      type(impl_t) :: b
      real(real64) :: c
    end subroutine ext_two
  end interface
  type, extends(base_t) :: impl_t
    integer :: extra
  contains
    procedure :: run => impl_run
  end type impl_t
contains
  subroutine impl_run(self)
    class(impl_t), intent(inout) :: self
    self%extra = counter
  end subroutine impl_run
  function make_impl(extra) result(res)
    integer, intent(in) :: extra
    type(impl_t) :: res
    res%extra = extra
  end function make_impl
  subroutine work(a, b)
    integer, intent(in) :: a
    real, intent(out) :: b
    integer :: tmp
    tmp = a
    block
      integer :: inblock
      inblock = tmp
    end block
    if (tmp > 0) then
      b = 1.0
    end if
    b = helper(tmp)
  contains
    real function helper(k)
      integer, intent(in) :: k
      helper = real(k)
    end function helper
  end subroutine work
end module m
subroutine tail(cb)
  use m; implicit none
  real CB
  external cb
  counter = 0
end subroutine tail
program main
  use m
  implicit none
  type(impl_t) :: obj
  integer :: n
  n = 1
  call obj%run()
  do n = 1, 2
    call obj%run()
  end do
  if (n > 0) then
    n = 0
  end if
end program main
"""
BL = BASE.split("\n")


def idx(text):
    return next(i for i, ln in enumerate(BL) if ln.strip() == text.strip())


def ins(lines, i, new):
    return lines[:i] + new + lines[i:]


# each variant: (description, lines, [(line, severity, message regex)])  - lines are BASE lines 0-based
def variants():
    V = []
    L = list(BL)
    # 1 declared twice (in module, procedure, block, program; also separated by other declarations)
    for anchor, dup in (("  integer :: counter", "  real :: counter"), ("    integer :: tmp", "    integer :: tmp"),
                        ("      integer :: inblock", "      real :: inblock"), ("  integer :: n", "  integer :: n"),
                        ("    integer, intent(in) :: a", "    integer :: a")):
        i = idx(anchor)
        V.append((f"twice:{dup.strip()}", ins(L, i + 1, [dup]), [(i + 1, 1, r"declared twice")]))
    i = idx("    integer :: tmp")
    V.append(("twice:separated", ins(L, idx("    tmp = a"), ["    real :: a"]), [(idx("    tmp = a"), 1, r"declared twice")]))
    # 2 masking a host variable (severity 2)
    for anchor, new in (("    integer :: tmp", "    integer :: counter"), ("      integer :: inblock", "      integer :: tmp"),
                        ("      integer, intent(in) :: k", "      integer :: tmp")):
        i = idx(anchor)
        V.append((f"mask:{new.strip()}", ins(L, i + 1, [new]), [(i + 1, 2, r"masks variable in parent scope")]))
    # 3 block construct left open when a bare END is reached (seeded in the last program unit: the bare END then
    #   closes the construct, nothing follows that could cascade)
    for closer, opener in (("  end do", "  do n = 1, 2"), ("  end if", "  if (n > 0) then")):
        i = BL.index(closer)
        l2 = L[:i] + L[i + 1:]
        j = next(k for k in range(i, len(l2)) if l2[k].strip() == "end program main")
        l2[j] = "end"
        V.append((f"open:{closer.strip()}", l2, [((BL.index(opener), j), 1, r"Unexpected end of scope")]))
    # 4 unknown module in USE (severity 3)
    for anchor in ("  use lib, only: base_t", "  use m"):
        i = idx(anchor)
        V.append((f"usemissing:{anchor.strip()}", ins(L, i + 1, ["  use no_such_module"]), [(i + 1, 3, r'Module "no_such_module" not found')]))
    # 5 derived type defined in the project but not accessible in the scope
    i = idx("  real(real64) :: scale")
    V.append(("type-not-accessible", ins(L, i + 1, ["  type(secret_t) :: leak"]), [(i + 1, 1, r'Object "secret_t" not found in scope')]))
    i = idx("  integer :: n")
    V.append(("type-not-accessible:main", ins(L, i + 1, ["  type(secret_t) :: leak"]), [(i + 1, 1, r'Object "secret_t" not found in scope')]))
    # 6 dummy argument without declaration under IMPLICIT NONE
    i = idx("  subroutine work(a, b)")
    l2 = list(L)
    l2[i] = "  subroutine work(a, b, undeclared)"
    V.append(("arg-undeclared", l2, [(i, 1, r'No matching declaration found for argument "undeclared"')]))
    i = idx("    real function helper(k)")
    l2 = list(L)
    l2[i] = "    real function helper(k, undeclared2)"
    V.append(("arg-undeclared:internal", l2, [(i, 1, r'No matching declaration found for argument "undeclared2"')]))
    # 7 INTENT variable missing from the argument list
    i = idx("    integer :: tmp")
    V.append(("intent-not-arg", ins(L, i + 1, ["    integer, intent(in) :: stray"]), [(i + 1, 1, r'"stray" with INTENT keyword not found')]))
    # 8 second CONTAINS
    i = idx("  subroutine work(a, b)")
    V.append(("contains-twice:module", ins(L, i, ["contains"]), [(i, 1, r"Multiple CONTAINS")]))
    i = idx("    real function helper(k)")
    V.append(("contains-twice:proc", ins(L, i, ["  contains"]), [(i, 1, r"Multiple CONTAINS")]))
    # 9 CONTAINS / IMPLICIT / PUBLIC / PRIVATE outside any scope
    for stmt, msg in (("contains", r"CONTAINS statement without enclosing scope"), ("implicit none", r"IMPLICIT statement without enclosing scope"),
                      ("private", r"Visibility statement without enclosing scope"), ("public :: x", r"Visibility statement without enclosing scope")):
        for at in (0, idx("program main")):
            V.append((f"outside:{stmt}@{at}", ins(L, at, [stmt]), [(at, 1, msg)]))
    # 10 IMPORT outside an interface body
    i = idx("    integer :: tmp")
    V.append(("import-outside", ins(L, i + 1, ["    import :: counter"]), [(i + 1, 1, r"IMPORT statement outside of interface")]))
    # 11 USE after IMPLICIT
    i = idx("  integer :: counter")
    V.append(("use-after-implicit", ins(L, i, ["  use lib, only: hidden_pub"]), [(idx("  implicit none"), 1, r"USE statements after IMPLICIT")]))
    # 12 procedure before CONTAINS
    i = idx("  integer :: counter")
    V.append(("proc-before-contains", ins(L, i, ["  subroutine early()", "  end subroutine early"]), [(i, 1, r"definition before CONTAINS")]))
    # 13 procedure nested in a type or block
    i = idx("      inblock = tmp")
    V.append(("proc-in-block", ins(L, i + 1, ["      subroutine nested()", "      end subroutine nested"]), [(i + 1, 1, r"Invalid parent")]))
    # 14 unimplemented deferred binding
    i = idx("    procedure :: run => impl_run")
    l2 = L[:i] + L[i + 1:]
    V.append(("deferred-not-implemented", l2, [(idx("  end type impl_t") - 1, 1, r'Deferred procedure "run" not implemented')]))
    # 15 over-long line (max_line_length = 60): warning
    i = idx("    tmp = a")
    long_line = "    tmp = a + 0 + 0 + 0 + 0 + 0 + 0 + 0 + 0 + 0 + 0 + 0 + 0 + 0 + 0 + 0 + 0"
    V.append(("long-line", ins(L, i + 1, [long_line]), [(i + 1, 2, r"Line length exceeds")]))
    # a code line longer than max_line_length (60) but within max_comment_line_length (80)
    V.append(("long-line:between-limits", ins(L, i + 1, [long_line[:70]]), [(i + 1, 2, r"Line length exceeds")]))
    long_comment = "    ! " + "c" * 84
    V.append(("long-comment", ins(L, i + 1, [long_comment]), [(i + 1, 2, r"Comment line length exceeds")]))
    return V


VARS = variants()
NV = len(VARS)


def diags_of(lines, gap, eol="\n"):
    text = eol * gap + eol.join(lines)
    srv = ws.reset(SRV, {f"{R}/lib.f90": LIB, f"{R}/prog.f90": text})
    # what the server PUBLISHED for prog.f90 on didOpen
    pub = [o for o in srv.conn.out if o[0] == "notif" and o[1] == "textDocument/publishDiagnostics" and o[2]["uri"].endswith("prog.f90")]
    errs = [o for o in srv.conn.out if o[0] == "err" or (o[0] == "notif" and o[1] == "window/showMessage" and o[2].get("type") == 1)]
    if errs or not pub:
        return None, f"no diagnostics published / error: {errs}"
    return pub[-1][2]["diagnostics"], None


def check_variant(v: int, gap: int, case: int = 0, eol: str = "\n", trail: bool = False):
    desc, lines, expect = VARS[v]
    if case:
        lines = [ln.upper() if case == 1 else ln.title() if "'" not in ln else ln for ln in lines]
        desc += f" case={case}"
    if trail:  # trailing blanks and a trailing comment on every line that is not itself a comment / over-long line test
        lines = [ln + "   ! trailing" if ln.strip() and not ln.lstrip().startswith("!") and len(ln) < 40 else ln for ln in lines]
        desc += " trailing-comments"
    got, err = diags_of(lines, gap, eol)
    if err:
        return f"{desc}: {err}"
    for line, sev, rx in expect:
        lines_ok = [x + gap for x in (line if isinstance(line, tuple) else (line,))]
        hit = [d for d in got if d["severity"] == sev and re.search(rx, d["message"], re.I) and d["range"]["start"]["line"] in lines_ok]
        if not hit:
            return f"{desc}: expected severity {sev} /{rx}/ on line {lines_ok}; published {[(d['severity'], d['message'], d['range']['start']['line']) for d in got]}"
    for d in got:
        if d["severity"] == 1 and not any(re.search(rx, d["message"], re.I) for _, s, rx in expect):
            return f"{desc}: unrelated error published: {(d['message'], d['range']['start']['line'])}"
    return None


def seeded(v: int, gap: int) -> bool:
    """defect variant v (class x position) seeded into the valid base program, `gap` blank lines above
    pre: 0 <= v < NV and 0 <= gap <= 3 and v % NPART == PART
    post: _
    """
    tick("seeded")
    v, gap = conc(v, 0, NV - 1), conc(gap, 0, 3)
    with NoTracing():
        msg = check_variant(v, gap)
        if msg:
            FAIL.append(msg)
    tock("seeded")
    return msg is None


EOLS = ["\n", "\r\n", "\r"]


def seeded_layout(v: int, case: int, eol: int, trail: bool) -> bool:
    """the same defect variants under re-layout: letter case (as written / upper / title), line-ending convention,
    trailing blanks + trailing comments on the short lines, 0..3 blank lines above: same class, same line
    pre: 0 <= v < NV and 0 <= case <= 2 and 0 <= eol <= 2 and v % NPART == PART
    pre: THOROUGH or (case + eol) % 3 == 1
    post: _
    """
    tick("seeded_layout")
    v, case, eol = conc(v, 0, NV - 1), conc(case, 0, 2), conc(eol, 0, 2)
    trail = bool(trail)
    msg = None
    with NoTracing():
        for gap in range(4):
            msg = check_variant(v, gap, case, EOLS[eol], trail)
            if msg:
                FAIL.append(msg)
                break
    tock("seeded_layout")
    return msg is None


def resave(v: int, n: int) -> bool:
    """diagnostics are a function of the text: publishing them again (n further saves of the unchanged file, with
    line-length limits set) gives the same list as the first time, for the base program and every defect variant
    pre: 0 <= v <= NV and 1 <= n <= 3 and v % NPART == PART
    post: _
    """
    tick("resave")
    v, n = conc(v, 0, NV), conc(n, 1, 3)
    ok = True
    with NoTracing():
        lines = BL if v == NV else VARS[v][1]
        first, err = diags_of(lines, 0)
        srv = SRV
        for _ in range(n):
            srv.handle({"jsonrpc": "2.0", "method": "textDocument/didSave", "params": {"textDocument": {"uri": "file://" + f"{R}/prog.f90"}}})
        pub = [o for o in srv.conn.out if o[0] == "notif" and o[1] == "textDocument/publishDiagnostics" and o[2]["uri"].endswith("prog.f90")]
        if err or not pub:
            ok = False
            FAIL.append(f"resave: {err}")
        else:
            last = pub[-1][2]["diagnostics"]
            key = lambda d: (d["range"]["start"]["line"], d["severity"], d["message"])  # noqa: E731
            if sorted(map(key, last)) != sorted(map(key, first)):
                ok = False
                FAIL.append(f"variant {v}: after {n} more saves {sorted(map(key, last))} first {sorted(map(key, first))}")
    tock("resave")
    return ok


def valid(gap: int, case: int) -> bool:
    """the base program itself (and its upper-case rendering): no error-severity diagnostic is published
    pre: 0 <= gap <= 3 and 0 <= case <= 1
    post: _
    """
    tick("valid")
    gap, case = conc(gap, 0, 3), conc(case, 0, 1)
    with NoTracing():
        lines = [ln.upper() if case else ln for ln in BL]
        got, err = diags_of(lines, gap)
        msg = err or next((f"error on valid program: {(d['message'], d['range']['start']['line'])}" for d in got if d["severity"] == 1), None)
        if msg:
            FAIL.append(msg)
    tock("valid")
    return msg is None


# ------------------------------------------------------------------------------------ (S) symbolic line numbers
def contains_lines(s1: int, c: int, s2: int, e: int) -> bool:
    """'procedure before CONTAINS' is reported for exactly the procedures whose line precedes the CONTAINS line;
    module [1..e], CONTAINS at line c, procedures at s1 and s2; lines are FREE symbolic ints
    pre: 1 < s1 and 1 < c and 1 < s2 and s1 != c and s2 != c and s1 + 1 < s2 and s2 + 1 < e and c < e and s1 + 1 != c and s2 + 1 != c
    post: _
    """
    tick("contains_lines")
    f = FortranFile("/w/a.f90")
    ast = FortranAST(f)
    m = Module(ast, 1, "m")
    ast.add_scope(m, None)
    p1 = Subroutine(ast, s1, "p1")
    ast.add_scope(p1, None)
    ast.end_scope(s1 + 1)
    p2 = Subroutine(ast, s2, "p2")
    ast.add_scope(p2, None)
    ast.end_scope(s2 + 1)
    m.mark_contains(c)
    ast.end_scope(e)
    errs = m.check_definitions({})
    flagged = sorted(d.sline for d in errs if "before CONTAINS" in d.message)
    want = sorted(x - 1 for x in (s1, s2) if x < c)
    ok = flagged == want and all(d.severity == 1 for d in errs)
    tock("contains_lines")
    return ok


def use_implicit_lines(u1: int, u2: int, im: int, has_im: bool) -> bool:
    """'USE after IMPLICIT' is reported exactly when some USE line follows the IMPLICIT line; FREE symbolic lines
    pre: 1 < u1 and 1 < u2 and 1 < im and u1 != im and u2 != im and u1 != u2
    post: _
    """
    tick("use_implicit_lines")
    f = FortranFile("/w/a.f90")
    ast = FortranAST(f)
    m = Module(ast, 1, "m")
    ast.add_scope(m, None)
    m.add_use(Use("iso_c_binding", line_number=u1))
    m.add_use(Use("iso_c_binding", line_number=u2))
    if has_im:
        m.set_implicit(False, im)
    errs = m.check_use({"iso_c_binding": [None, None]})
    flagged = [d for d in errs if "after IMPLICIT" in d.message]
    want = has_im and (u1 > im or u2 > im)
    ok = (len(flagged) == 1 and flagged[0].sline == im - 1 and flagged[0].severity == 1) if want else not flagged
    tock("use_implicit_lines")
    return ok


def twice_lines(l1: int, l2: int, l3: int, same: bool) -> bool:
    """'declared twice': with declarations of one name at FREE symbolic lines l1 < l2 (children are appended in source order) and an unrelated one at l3,
    exactly the later declaration is flagged (severity 1, 0-based line, related = the first declaration)
    pre: 1 < l1 and l1 < l2 and 1 < l3 and l1 != l3 and l2 != l3
    post: _
    """
    tick("twice_lines")
    from fortls.parsers.internal.variable import Variable

    f = FortranFile("/w/a.f90")
    ast = FortranAST(f)
    m = Module(ast, 1, "m")
    ast.add_scope(m, None)
    a = Variable(ast, l1, "x", "INTEGER", [])
    ast.add_variable(a)
    b = Variable(ast, l2, "x" if same else "y", "REAL", [])
    ast.add_variable(b)
    c = Variable(ast, l3, "z", "REAL", [])
    ast.add_variable(c)
    ast.end_scope(l1 + l2 + l3)
    errs = [d for d in m.check_definitions({}) if "declared twice" in d.message]
    if same:
        later, first = (l2, l1) if l2 > l1 else (l1, l2)
        ok = len(errs) == 1 and errs[0].sline == later - 1 and errs[0].severity == 1 and errs[0].related_line == first - 1
    else:
        ok = not errs
    tock("twice_lines")
    return ok
