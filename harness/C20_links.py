"""C20 (structural, TRACED) - link resolution keeps every delegation chain acyclic.

The real link-resolution functions run under CrossHair on object graphs built with the real constructors; the
successor of each node is a symbolic index, so z3 explores every functional graph on N nodes:
  * Variable.resolve_link / links_back  (pointer links  x_i => x_succ(i))
  * Method.resolve_link                 (procedure pointers q_i => q_succ(i))
  * Type.resolve_inherit / _extends_self / get_overridden  (type t_i extends t_succ(i))
  * Submodule.resolve_inherit / get_ancestors, find_in_scope through ancestors
Afterwards every getter that delegates along the links (get_type, get_desc, get_hover, get_type_obj, get_keywords,
get_snippet, get_overridden, get_ancestors, find_in_scope) must return, and following the links from any node must
end within N steps (acyclicity invariant).  A second resolution round (as after a save) must preserve this.
"""
from lib.hx import npart, part, silence, tick, tock

silence()

from fortls.parsers.internal.ast import FortranAST  # noqa: E402
from fortls.parsers.internal.method import Method  # noqa: E402
from fortls.parsers.internal.module import Module  # noqa: E402
from fortls.parsers.internal.parser import FortranFile  # noqa: E402
from fortls.parsers.internal.submodule import Submodule  # noqa: E402
from fortls.parsers.internal.type import Type  # noqa: E402
from fortls.parsers.internal.utilities import find_in_scope  # noqa: E402
from fortls.parsers.internal.variable import Variable  # noqa: E402

PART, NPART = part(), npart()
NAMES = ["n0", "n1", "n2", "n3"]


def _chain_ok(nodes, attr, n):
    for x in nodes:
        k = 0
        while x is not None:
            x = getattr(x, attr, None)
            k += 1
            if k > n + 1:
                return False
    return True


def var_links(n: int, s0: int, s1: int, s2: int, s3: int, proc: bool) -> bool:
    """pointer / procedure-pointer links
    pre: 1 <= n <= 4 and 0 <= s0 < n and 0 <= s1 < n and 0 <= s2 < n and 0 <= s3 < n and (s0 + s1) % NPART == PART
    post: _
    """
    tick("var_links")
    succ = [s0, s1, s2, s3]
    f = FortranFile("/w/a.f90")
    ast = FortranAST(f)
    m = Module(ast, 1, "m")
    ast.add_scope(m, None)
    nodes = []
    for i in range(n):
        if proc:
            v = Method(ast, 2 + i, NAMES[i], "PROCEDURE", [0], {}, proc_ptr="(f)", link_obj=NAMES[succ[i]])
        else:
            v = Variable(ast, 2 + i, NAMES[i], "INTEGER", [0], link_obj=NAMES[succ[i]])
        ast.add_variable(v)
        nodes.append(v)
    ast.end_scope(10)
    tree = {"m": [m, "/w/a.f90"]}
    ok = True
    for _round in (1, 2):
        ast.resolve_links(tree, _round)
        ok = ok and _chain_ok(nodes, "link_obj", n)
        for v in nodes:
            v.get_type()
            v.get_desc()
            v.get_hover()
            v.get_type_obj(tree)
            v.get_keywords()
            v.get_snippet()
            v.get_documentation()
    tock("var_links")
    return ok


def type_links(n: int, s0: int, s1: int, s2: int, s3: int) -> bool:
    """EXTENDS links between types of one module
    pre: 1 <= n <= 4 and 0 <= s0 < n and 0 <= s1 < n and 0 <= s2 < n and 0 <= s3 < n and (s0 + s1) % NPART == PART
    post: _
    """
    tick("type_links")
    succ = [s0, s1, s2, s3]
    f = FortranFile("/w/a.f90")
    ast = FortranAST(f)
    m = Module(ast, 1, "m")
    ast.add_scope(m, None)
    types = []
    for i in range(n):
        t = Type(ast, 2 + 3 * i, NAMES[i], [])
        t.set_inherit(NAMES[succ[i]])
        ast.add_scope(t, None, req_container=True)
        c = Variable(ast, 3 + 3 * i, "c" + NAMES[i], "INTEGER", [])
        ast.add_variable(c)
        b = Method(ast, 4 + 3 * i, "bnd", "PROCEDURE", [], {}, proc_ptr="", link_obj=None)
        ast.add_variable(b)
        ast.end_scope(4 + 3 * i)
        types.append(t)
    ast.end_scope(20)
    tree = {"m": [m, "/w/a.f90"]}
    ok = True
    for _round in (1, 2):
        ast.resolve_links(tree, _round)
        ok = ok and _chain_ok(types, "inherit_var", n)
        for t in types:
            ov = t.get_overridden("bnd")
            ok = ok and 1 <= len(ov) <= n
            names = [ch.name for ch in t.get_children()]
            ok = ok and len(names) == len(set(names))  # own + inherited members, no duplicates
            t.get_hover()
            t.get_diagnostics()
    tock("type_links")
    return ok


def submod_links(n: int, s0: int, s1: int, s2: int, s3: int, q: int) -> bool:
    """submodule ancestry: s_i's parent is s_succ(i) (all in obj_tree); lookups through ancestors terminate
    pre: 1 <= n <= 4 and 0 <= s0 < n and 0 <= s1 < n and 0 <= s2 < n and 0 <= s3 < n and 0 <= q < n and (s0 + s1) % NPART == PART
    post: _
    """
    tick("submod_links")
    succ = [s0, s1, s2, s3]
    subs, tree = [], {}
    for i in range(n):
        f = FortranFile(f"/w/{NAMES[i]}.f90")
        ast = FortranAST(f)
        s = Submodule(ast, 1, NAMES[i], ancestor_name=NAMES[succ[i]])
        ast.add_scope(s, None)
        v = Variable(ast, 2, "v" + NAMES[i], "INTEGER", [])
        ast.add_variable(v)
        ast.end_scope(3)
        subs.append((ast, s))
        tree[NAMES[i]] = [s, f.path]
    ok = True
    for _round in (1, 2):
        for ast, s in subs:
            ast.resolve_links(tree, _round)
        ok = ok and _chain_ok([s for _, s in subs], "ancestor_obj", n)
        for _, s in subs:
            anc = s.get_ancestors()
            ok = ok and len(anc) <= n and all(a is not s for a in anc)
            find_in_scope(s, "v" + NAMES[q], tree)
            find_in_scope(s, "nothing", tree)
    tock("submod_links")
    return ok
