"""C02 - server-side text equals the client's after any edit sequence.

Real code executed symbolically: FortranFile.apply_change (all four paths),
splitlines, set_contents, check_change_reparse (with the real get_code_line,
detect_fixed_format, strip_* helpers), LangServer.serve_onChange.

Oracle: the LSP text-edit reference model (join with \\n, splice by offset,
split on \\r\\n | \\n | \\r).
"""
import os
from typing import List

from crosshair.tracers import NoTracing

from lib.hx import conc, npart, part, silence, tick, tock

silence()

from fortls.interface import cli  # noqa: E402
from fortls.langserver import LangServer  # noqa: E402
from fortls.parsers.internal.ast import FortranAST  # noqa: E402
from fortls.parsers.internal.parser import FortranFile, splitlines  # noqa: E402

PART, NPART = part(), npart()
TOK = ["x", "\n", "\r", "\r\n"]
# document shapes: empty doc, one line, several lines, empty lines inside / at the end
if os.environ.get("VERIF_TIER", "quick") == "thorough":
    DOCS = [[""], ["ab"], ["ab", "cd", "e"], ["ab", "", "cd"], ["a", ""], ["", "b"]]
else:
    DOCS = [[""], ["ab", "cd", "e"], ["a", ""]]


def ref_split(t: str) -> List[str]:
    out = []
    cur = ""
    i = 0
    while i < len(t):
        c = t[i]
        if c == "\r":
            out.append(cur)
            cur = ""
            if i + 1 < len(t) and t[i + 1] == "\n":
                i += 1
        elif c == "\n":
            out.append(cur)
            cur = ""
        else:
            cur += c
        i += 1
    out.append(cur)
    return out


def ref_apply(lines, sl, sc, el, ec, text):
    new = lines[sl][:sc] + text + lines[el][ec:]
    return lines[:sl] + ref_split(new) + lines[el + 1:]


def valid_range(lines, sl, sc, el, ec) -> bool:
    return (0 <= sl <= el < len(lines) and 0 <= sc <= len(lines[sl]) and 0 <= ec <= len(lines[el])
            and (sl < el or sc <= ec))


SEG = ["", "x"]
SEP = ["\n", "\r", "\r\n"]


def mk_text(k, s0, s1, s2, sep):
    """k segments (each "" or "x") joined by one kind of line break.  Texts mixing
    break kinds are covered by the free-string obligation on splitlines (E4):
    apply_change sees the text only through splitlines() and len()."""
    return SEP[sep].join(SEG[i] for i in [s0, s1, s2][:k])


def invariant(f: FortranFile) -> bool:
    return (f.nLines == len(f.contents_split)
            and all(("\n" not in ln and "\r" not in ln) for ln in f.contents_split)
            and len(f.contents_pp) == len(f.contents_split)
            and all(a == b for a, b in zip(f.contents_pp, f.contents_split)))


def edit(d: int, sl: int, sc: int, el: int, ec: int, k: int, s0: int, s1: int, s2: int, sep: int) -> bool:
    """one ranged edit from an arbitrary valid buffer
    pre: 0 <= d < len(DOCS) and (sc * 9 + ec * 3 + sep + s0 * 5 + s1 * 7) % NPART == PART
    pre: 0 <= sl <= el <= 2 and 0 <= sc <= 2 and 0 <= ec <= 2
    pre: 1 <= k <= 3 and 0 <= s0 <= 1 and 0 <= s1 <= 1 and 0 <= s2 <= 1 and 0 <= sep <= 2
    pre: k > 1 or sep == 0
    post: _
    """
    tick("edit")
    sl, sc, el, ec = conc(sl, 0, 2), conc(sc, 0, 2), conc(el, 0, 2), conc(ec, 0, 2)
    lines = list(DOCS[d])
    if not valid_range(lines, sl, sc, el, ec):
        return True
    text = mk_text(k, s0, s1, s2, sep)
    f = FortranFile("/x.f90")
    f.set_contents(list(lines))
    f.apply_change({"range": {"start": {"line": sl, "character": sc}, "end": {"line": el, "character": ec}},
                    "text": text})
    ok = f.contents_split == ref_apply(lines, sl, sc, el, ec, text) and invariant(f)
    tock("edit")
    return ok


def full(d: int, k: int, s0: int, s1: int, s2: int, sep: int, with_len: bool) -> bool:
    """whole-document replacement (no range)
    pre: 0 <= d < len(DOCS)
    pre: 1 <= k <= 3 and 0 <= s0 <= 1 and 0 <= s1 <= 1 and 0 <= s2 <= 1 and 0 <= sep <= 2
    pre: k > 1 or sep == 0
    post: _
    """
    tick("full")
    text = mk_text(k, s0, s1, s2, sep)
    f = FortranFile("/x.f90")
    f.set_contents(list(DOCS[d]))
    ch = {"text": text}
    if with_len:
        ch["rangeLength"] = 7
    f.apply_change(ch)
    ok = f.contents_split == ref_split(text) and invariant(f)
    tock("full")
    return ok


def edit2(d: int, sl: int, sc: int, el: int, ec: int, k: int, s0: int, s1: int, sep: int,
          sl2: int, sc2: int, el2: int, ec2: int, k2: int, u0: int, u1: int, sep2: int) -> bool:
    """two chained ranged edits (second range valid in the intermediate document)
    pre: 0 <= d < len(DOCS) and (sc * 9 + ec * 3 + sep + s0 * 5 + sc2 * 7 + ec2) % NPART == PART
    pre: 0 <= sl <= el <= 2 and 0 <= sc <= 2 and 0 <= ec <= 2
    pre: 0 <= sl2 <= el2 <= 3 and 0 <= sc2 <= 2 and 0 <= ec2 <= 2
    pre: 1 <= k <= 2 and 1 <= k2 <= 2 and 0 <= s0 <= 1 and 0 <= s1 <= 1 and 0 <= u0 <= 1 and 0 <= u1 <= 1
    pre: 0 <= sep <= 2 and 0 <= sep2 <= 2 and (k > 1 or sep == 0) and (k2 > 1 or sep2 == 0)
    post: _
    """
    tick("edit2")
    sl, sc, el, ec = conc(sl, 0, 2), conc(sc, 0, 2), conc(el, 0, 2), conc(ec, 0, 2)
    sl2, sc2, el2, ec2 = conc(sl2, 0, 3), conc(sc2, 0, 2), conc(el2, 0, 3), conc(ec2, 0, 2)
    lines = list(DOCS[d])
    if not valid_range(lines, sl, sc, el, ec):
        return True
    text = mk_text(k, s0, s1, 0, sep)
    mid = ref_apply(lines, sl, sc, el, ec, text)
    if not valid_range(mid, sl2, sc2, el2, ec2):
        return True
    text2 = mk_text(k2, u0, u1, 0, sep2)
    f = FortranFile("/x.f90")
    f.set_contents(list(lines))
    f.apply_change({"range": {"start": {"line": sl, "character": sc}, "end": {"line": el, "character": ec}},
                    "text": text})
    f.apply_change({"range": {"start": {"line": sl2, "character": sc2}, "end": {"line": el2, "character": ec2}},
                    "text": text2})
    ok = f.contents_split == ref_apply(mid, sl2, sc2, el2, ec2, text2) and invariant(f)
    tock("edit2")
    return ok


def split_free(s: str) -> bool:
    """splitlines on a free symbolic string: LSP line-break rule, nothing lost
    pre: len(s) <= 4
    post: _
    """
    tick("split_free")
    got = splitlines(s)
    ok = got == ref_split(s)
    tock("split_free")
    return ok


# ------------------------------------------------------------- serve_onChange: order of contentChanges
class _Conn:
    def __init__(self):
        self.out = []

    def send_notification(self, method, params):
        self.out.append((method, params))

    def write_error(self, *a, **k):
        self.out.append(("err", a))

    def write_response(self, *a, **k):
        self.out.append(("resp", a))


OC_FULL = os.environ.get("VERIF_TIER", "quick") == "thorough"
DOCS_OC = DOCS if os.environ.get("VERIF_TIER", "quick") == "thorough" else [["ab", "c"]]
SRV_INC = LangServer(_Conn(), vars(cli("fortls").parse_args(["--incremental_sync"])))
SRV_FULL = LangServer(_Conn(), vars(cli("fortls").parse_args([])))
# incremental sync switched on by the configuration file instead of the command line: the client follows the
# option, so both content changes of a notification must be applied
SRV_CFG = LangServer(_Conn(), vars(cli("fortls").parse_args([])))
SRV_CFG._load_config_file_general({"incremental_sync": True})
# ... and switched off by the file although given on the command line
SRV_CFG_OFF = LangServer(_Conn(), vars(cli("fortls").parse_args(["--incremental_sync"])))
SRV_CFG_OFF._load_config_file_general({"incremental_sync": False})
from lib import ws as _ws  # noqa: E402

SRV_WS = _ws.make_server()
for _s in (SRV_INC, SRV_FULL, SRV_CFG, SRV_CFG_OFF):
    _s.update_workspace_file = lambda path, **kw: (True, None)


def on_change(inc: bool, via_cfg: bool, d: int, sl: int, sc: int, el: int, ec: int, k: int, s0: int, s1: int, sep: int,
              sl2: int, sc2: int, el2: int, ec2: int, u0: int) -> bool:
    """didChange with two content changes through the real handler
    pre: 0 <= d < len(DOCS_OC) and (sc * 9 + ec * 3 + sep + s0 * 5 + sc2 * 7 + ec2) % NPART == PART
    pre: 0 <= sl <= el <= 2 and 0 <= sc <= 2 and 0 <= ec <= 2
    pre: 0 <= sl2 <= el2 <= 3 and 0 <= sc2 <= 2 and 0 <= ec2 <= 2
    pre: 1 <= k <= 2 and 0 <= s0 <= 1 and 0 <= s1 <= 1 and 0 <= u0 <= 1 and 0 <= sep <= 2 and (k > 1 or sep == 0)
    pre: OC_FULL or (sep == 0 and u0 == 1 and sl2 == el2 and sc2 == ec2)
    post: _
    """
    tick("on_change")
    sl, sc, el, ec = conc(sl, 0, 2), conc(sc, 0, 2), conc(el, 0, 2), conc(ec, 0, 2)
    sl2, sc2, el2, ec2 = conc(sl2, 0, 3), conc(sc2, 0, 2), conc(el2, 0, 3), conc(ec2, 0, 2)
    lines = list(DOCS_OC[d])
    text = mk_text(k, s0, s1, 0, sep)
    text2 = SEG[u0]
    srv = (SRV_CFG if inc else SRV_CFG_OFF) if via_cfg else (SRV_INC if inc else SRV_FULL)
    f = FortranFile("/w/x.f90")
    f.set_contents(list(lines))
    f.ast = FortranAST(f)
    srv.workspace = {"/w/x.f90": f}
    srv.conn.out = []
    if inc:
        if not valid_range(lines, sl, sc, el, ec):
            return True
        mid = ref_apply(lines, sl, sc, el, ec, text)
        if not valid_range(mid, sl2, sc2, el2, ec2):
            return True
        expect = ref_apply(mid, sl2, sc2, el2, ec2, text2)
        changes = [{"range": {"start": {"line": sl, "character": sc}, "end": {"line": el, "character": ec}}, "text": text},
                   {"range": {"start": {"line": sl2, "character": sc2}, "end": {"line": el2, "character": ec2}}, "text": text2}]
    else:
        expect = ref_split(text)
        # several whole-document texts in one notification apply in order: the last one is the document
        changes = [{"text": text}] if u0 == 0 else [{"text": text2 + "\nzz"}, {"text": text}]
    srv.serve_onChange({"params": {"textDocument": {"uri": "file:///w/x.f90"}, "contentChanges": changes}})
    ok = f.contents_split == expect and invariant(f) and not any("failed" in str(o) for o in srv.conn.out)
    tock("on_change")
    return ok


PP_MAXC = 8 if os.environ.get("VERIF_TIER", "quick") == "thorough" else 3
PP_DOC = ["#define NMAX 100", "real :: w(NMAX)", "#define F(a) \\", "  a + 1", "x = F(2)"]


def edit_pp(ln: int, sc: int, ec: int, k: int, s0: int, s1: int, sep: int) -> bool:
    """ranged single/multi-line edit on a PREPROCESSED file whose macro-expanded copy
    (contents_pp) differs from the client's text: the client's text must be what is edited
    pre: 0 <= ln < len(PP_DOC) and 0 <= sc <= ec <= PP_MAXC and ln % NPART == PART
    pre: 1 <= k <= 2 and 0 <= s0 <= 1 and 0 <= s1 <= 1 and 0 <= sep <= 2 and (k > 1 or sep == 0)
    post: _
    """
    tick("edit_pp")
    sc, ec = conc(sc, 0, PP_MAXC), conc(ec, 0, PP_MAXC)
    lines = list(PP_DOC)
    f = FortranFile("/x.F90")
    f.set_contents(list(lines))
    f.preprocess()
    if f.contents_pp == f.contents_split:
        return False  # harness sanity: macro expansion must make the copies differ
    text = mk_text(k, s0, s1, 0, sep)
    f.apply_change({"range": {"start": {"line": ln, "character": sc}, "end": {"line": ln, "character": ec}},
                    "text": text})
    ok = (f.contents_split == ref_apply(lines, ln, sc, ln, ec, text) and f.nLines == len(f.contents_split)
          and all(("\n" not in x and "\r" not in x) for x in f.contents_split))
    tock("edit_pp")
    return ok


if os.environ.get("VERIF_C02_STUB") == "1":
    # format detection and the reparse test only feed `fixed` / the reparse flag, never the text
    import fortls.parsers.internal.parser as _P

    _P.detect_fixed_format = lambda lines: False
    FortranFile.get_code_line = lambda self, *a, **k: ([], "!", [])


# ------------------------------------------------------------------------------------ (R) re-opening a document
def reopen(ln: int, sc: int, ec: int, n: int, close: bool, s0: int) -> bool:
    """didOpen, n single-line ranged edits (never saved), [didClose,] didOpen again while the file on disk is
    unchanged: the client's text is the disk text again, and so must the server's be (also what it has indexed)
    pre: 0 <= ln <= 2 and 0 <= sc <= ec <= 3 and 1 <= n <= 2 and 0 <= s0 <= 1
    post: _
    """
    from lib import ws

    tick("reopen")
    ln, sc, ec, n, s0 = conc(ln, 0, 2), conc(sc, 0, 3), conc(ec, 0, 3), conc(n, 1, 2), conc(s0, 0, 1)
    close = bool(close)
    ok = True
    with NoTracing():
        path = ws.ROOT + "/r.f90"
        disk = "module rmod\n  integer :: rvar\nend module rmod\n"
        srv = ws.reset(SRV_WS, {path: disk})
        want = ws.request(srv, "textDocument/documentSymbol", path, 0, 0)
        uri = "file://" + path
        for i in range(n):
            srv.handle({"jsonrpc": "2.0", "method": "textDocument/didChange", "params": {"textDocument": {"uri": uri}, "contentChanges": [
                {"range": {"start": {"line": ln, "character": sc}, "end": {"line": ln, "character": ec}}, "text": ["q", "x y"][s0]}]}})
        if close:
            srv.handle({"jsonrpc": "2.0", "method": "textDocument/didClose", "params": {"textDocument": {"uri": uri}}})
        srv.handle({"jsonrpc": "2.0", "method": "textDocument/didOpen", "params": {"textDocument": {"uri": uri}}})
        f = srv.workspace.get(path)
        ok = f is not None and "\n".join(f.contents_split).rstrip("\n") == disk.rstrip("\n")
        r = ws.request(srv, "textDocument/documentSymbol", path, 0, 0)
        ok = ok and r[0] == "resp" and r == want
    tock("reopen")
    return ok
