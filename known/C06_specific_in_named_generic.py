#!/usr/bin/env python
"""Witness of known finding C06-specific-in-named-generic: exit 1 = still reproduces."""
import sys
sys.path.insert(0, "/verif")
import harness.C06_refs as H
from lib import ws
t, occ = H.render(H.PR5)
files = dict(H.FILES); files[H.R + "/pr5.f90"] = t
srv = ws.reset(H.SRV, files)
decl = [o for o in H.OCC if o[5] == "mi.spec"][0]
r = ws.request(srv, "textDocument/references", decl[0], decl[1], decl[2])
got = H.loc_set(r[1]) if r[0] == "resp" and r[1] else []
call = [(H.R + "/pr5.f90", ln, s, e) for ln, s, e, n, ent in occ if ent == "mi.spec"]
missing = [c for c in call if c not in got]
d = ws.request(srv, "textDocument/definition", call[0][0], call[0][1], call[0][2])
print("references of mi.spec: call by its specific name in pr5.f90 missing:", missing, "| definition from the call:", d[1])
sys.exit(1 if missing else 0)
