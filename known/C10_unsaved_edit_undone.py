#!/usr/bin/env python
"""Witness of known finding C10-unsaved-edit-undone: exit 1 = still reproduces."""
import sys
sys.path.insert(0, "/verif")
import harness.C10_history as H
evs = [("change", "a", 3), ("save", "j", 1), ("change", "a", 0)]
got, want, files = H.run_history(evs, 0, 0, 2, strict=True)
diff = {k: (got.get(k), want.get(k)) for k in want if got.get(k) != want.get(k)}
print("history", evs, "ending with buffers == files and nothing left to save: differences to a fresh server:", {k: v for k, v in list(diff.items())[:3]})
sys.exit(1 if diff else 0)
