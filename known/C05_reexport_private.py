#!/usr/bin/env python
"""Witness of known finding C05-reexport-private-default: exit 1 = still reproduces."""
import sys
sys.path.insert(0, "/verif")
from lib import ws
from lib.world import W
w = W(m2_private=True, target="m2")
srv = ws.reset(ws.make_server(), w.files())
site = [s for s in w.sites if s[3] == "a" and s[4] == "main"][0]
r = ws.request(srv, "textDocument/definition", site[0], site[1], site[2])
print("definition of 'a' in main (use m2; m2 is PRIVATE by default and only uses m1):", r)
sys.exit(1 if r[0] == "resp" and r[1] is not None else 0)
