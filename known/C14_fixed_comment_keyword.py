#!/usr/bin/env python
"""Witness of known finding C14-fixed-comment-keyword: exit 1 = still reproduces."""
import sys
from fortls.helper_functions import detect_fixed_format
doc = ["COMPLEX ARITHMETIC ROUTINES", "      SUBROUTINE S(A)", "      COMPLEX A", "      END"]
fixed = detect_fixed_format(doc)
print("detect_fixed_format ->", fixed, "(a fixed-form file: expected True)")
sys.exit(0 if fixed else 1)
