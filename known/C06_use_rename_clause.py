#!/usr/bin/env python
"""Witness of known finding C06-use-rename-clause: exit 1 = still reproduces."""
import sys
sys.path.insert(0, "/verif")
import harness.C06_refs as H
from lib import ws
t, occ = H.render(H.PR2)
files = dict(H.FILES); files[H.R + "/pr2.f90"] = t
srv = ws.reset(H.SRV, files)
decl = [o for o in H.OCC if o[5] == "ma.i"][0]
r = ws.request(srv, "textDocument/references", decl[0], decl[1], decl[2])
got = H.loc_set(r[1]) if r[0] == "resp" and r[1] else []
clause = [(H.R + "/pr2.f90", ln, s, e) for ln, s, e, n, ent in occ if ent == "ma.i"]
missing = [c for c in clause if c not in got]
print("references of ma.i: occurrences in pr2.f90 (rename clause + alias uses) missing:", missing)
sys.exit(1 if missing else 0)
