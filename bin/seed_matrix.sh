#!/bin/bash
# runs every confirmed seed (or those matching the globs given as arguments, default C*) against its property's quick check;
# records the outcome in seeded/<id>/meta.json.  A round-2 first-run result is kept under detected_by.first_run_result.
cd /verif
[ $# -eq 0 ] && set -- 'C*'
for g in "$@"; do for d in seeded/$g/; do
  sid=$(basename $d); pid=${sid:0:3}
  [ -f $d/patch.diff ] || continue
  out=$(bin/seedtest.sh /verif/$d/patch.diff $pid --tier quick 2>&1)
  rc=$(echo "$out" | grep -o "seedtest rc=[0-9]*" | tail -1 | cut -d= -f2)
  obs=$(echo "$out" | grep -A1 "^VIOLATION" | grep "obligation=" | sed 's/.*obligation=\([^ ]*\).*/\1/' | sort -u | head -6 | tr '\n' ' ')
  python3 - "$sid" "$rc" "$obs" <<'PY'
import json,sys
sid,rc,obs=sys.argv[1:4]
p=f"/verif/seeded/{sid}/meta.json"; m=json.load(open(p))
old=m.get("detected_by") or {}
new={"check": sid[:3]+" quick", "exit_code": int(rc) if rc else None, "violating_obligations": obs.split(), "detected": rc=="1"}
if old.get("first_run") is True:
    new["first_run_result"]={"detected": old.get("detected"), "violating_obligations": old.get("violating_obligations", [])}
elif "first_run_result" in old:
    new["first_run_result"]=old["first_run_result"]
m["detected_by"]=new
json.dump(m,open(p,"w"),indent=1)
print(sid, "detected" if rc=="1" else "MISSED rc="+str(rc), obs, flush=True)
PY
done; done
