#!/bin/bash
# runs every confirmed seed against its property's quick check; records the outcome in seeded/<id>/meta.json
cd /verif
for d in seeded/C*/; do
  sid=$(basename $d); pid=${sid:0:3}
  [ -f $d/patch.diff ] || continue
  out=$(bin/seedtest.sh /verif/$d/patch.diff $pid --tier quick 2>&1)
  rc=$(echo "$out" | grep -o "seedtest rc=[0-9]*" | tail -1 | cut -d= -f2)
  obs=$(echo "$out" | grep -A1 "^VIOLATION" | grep "obligation=" | sed 's/.*obligation=\([^ ]*\).*/\1/' | sort -u | head -6 | tr '\n' ' ')
  python3 - "$sid" "$rc" "$obs" <<'PY'
import json,sys
sid,rc,obs=sys.argv[1:4]
p=f"/verif/seeded/{sid}/meta.json"; m=json.load(open(p))
m["detected_by"]={"check": sid[:3]+" quick", "exit_code": int(rc) if rc else None, "violating_obligations": obs.split(), "detected": rc=="1"}
json.dump(m,open(p,"w"),indent=1)
print(sid, "detected" if rc=="1" else "MISSED rc="+str(rc), obs)
PY
done
