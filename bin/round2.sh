#!/bin/bash
# confirm and evaluate round-2 seeds for the given property ids
cd /verif
for pid in "$@"; do
  for s in a b; do
    d=/tmp/s2_$pid/$s; sid=${pid}r2$s
    [ -f $d/patch.diff ] || continue
    [ -d seeded/$sid ] && continue
    bin/confirm_seed.sh $d $sid $pid | tail -2
    [ -d seeded/$sid ] || continue
    out=$(bin/seedtest.sh /verif/seeded/$sid/patch.diff $pid --tier quick 2>&1)
    rc=$(echo "$out" | grep -o "seedtest rc=[0-9]*" | tail -1 | cut -d= -f2)
    obs=$(echo "$out" | grep -A1 "^VIOLATION" | grep "obligation=" | sed 's/.*obligation=\([^ ]*\).*/\1/' | sort -u | head -6 | tr '\n' ' ')
    python3 - "$sid" "$rc" "$obs" <<'PY'
import json,sys
sid,rc,obs=sys.argv[1:4]
p=f"/verif/seeded/{sid}/meta.json"; m=json.load(open(p))
m["round"]=2
m["detected_by"]={"check": sid[:3]+" quick", "exit_code": int(rc) if rc else None, "violating_obligations": obs.split(), "detected": rc=="1", "first_run": True}
json.dump(m,open(p,"w"),indent=1)
print("ROUND2", sid, "detected" if rc=="1" else "MISSED rc="+str(rc), obs)
PY
  done
done
