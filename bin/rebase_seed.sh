#!/bin/bash
# usage: rebase_seed.sh <seed-id> <rebased patch>
# re-confirms a seed whose patch had to be rebased onto later repairs (suite passes with it, demo fails with it and
# passes without it, on the CURRENT /repo HEAD in a scratch worktree); keeps the original as patch.orig.diff
set -u
SID="$1"; NEW="$2"; D=/verif/seeded/$SID
WT=/tmp/wtr_$SID; export TMPDIR=/tmp/tmpr_$SID; mkdir -p $TMPDIR
git -C /repo worktree add --detach $WT HEAD >/dev/null 2>&1 || { echo "worktree failed"; exit 9; }
cd $WT
run_demo() { (cd $WT && PYTHONPATH=$WT timeout 600 /venv/bin/python "$D/demo.py" >/tmp/demo_$SID.out 2>&1; echo $?); }
base=$(run_demo)
git apply "$NEW" || { echo "PATCH DOES NOT APPLY"; git -C /repo worktree remove --force $WT; exit 2; }
suite=$(PYTHONPATH=$WT timeout 1200 /venv/bin/python -m pytest -q -p no:cacheprovider -n 8 --deselect test/test_interface.py::test_version_update_pypi 2>&1 | tail -1)
mut=$(run_demo)
head=$(git -C /repo rev-parse --short HEAD)
git checkout -- . ; cd /verif; git -C /repo worktree remove --force $WT; rm -rf $TMPDIR
echo "seed=$SID base_demo_rc=$base suite='$suite' mutated_demo_rc=$mut"
if [[ "$base" == "0" && "$mut" != "0" && "$suite" == *" passed"* && "$suite" != *failed* ]]; then
  [ -f $D/patch.orig.diff ] || cp $D/patch.diff $D/patch.orig.diff
  cp "$NEW" $D/patch.diff
  python3 - "$SID" "$head" "$suite" "$base" "$mut" <<'PY'
import json,sys
sid,head,suite,base,mut=sys.argv[1:6]
p=f"/verif/seeded/{sid}/meta.json"; m=json.load(open(p))
m["rebased"]={"onto":head,"existing_suite_with_patch":suite,"demo_rc_unpatched":int(base),"demo_rc_patched":int(mut),"note":"patch.diff rebased onto later repairs (same change, context updated); the original is patch.orig.diff"}
json.dump(m,open(p,"w"),indent=1)
PY
  echo REBASED-CONFIRMED
else echo "REBASE NOT CONFIRMED (see /tmp/demo_$SID.out)"; fi
