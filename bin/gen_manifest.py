#!/usr/bin/env python3
import json, os, sys
VERIF = os.path.dirname(os.path.dirname(os.path.abspath(__file__)))
sys.path.insert(0, VERIF)
from checks import registry as R

ids = [json.loads(l)["id"] for l in open(os.path.join(VERIF, "properties.jsonl"))]
checks, na = [], []
for pid in ids:
    if pid in R.CLAIMED:
        c = R.CLAIMED[pid]
        checks.append({
            "property_id": pid,
            "quick_cmd": f"python3 bin/check.py {pid} --tier quick",
            "thorough_cmd": f"python3 bin/check.py {pid} --tier thorough",
            "evidence_file": f"/verif/evidence/{pid}.json",
            "replay_cmd_template": "/verif/.venv/bin/python {path}",
            "engine": c.get("engine", "xh+rx"),
            "level_claimed": {"category": "model_checking", "text": c["text"], "design_ref": c.get("ref", "DESIGN.md section 5")},
            "level_note": c["note"],
            "technique": c.get("technique", R.TECH),
        })
    else:
        na.append({"property_id": pid, "reason": R.NOT_APPLICABLE.get(pid, R.PENDING)})
m = {
    "version": 1,
    "setup_cmd": "python3 lib/env.py",
    "hooks": {"guard": "FORTLS_VERIF", "enable": "no source hooks: harnesses wrap/stub from outside; FORTLS_VERIF reserved",
              "baseline_off_cmd": "cd /repo && /venv/bin/python -m pytest -ra -q -p no:cacheprovider --timeout=900 --continue-on-collection-errors",
              "source_commits": [], "add_only": True},
    "engines": [
        {"name": "xh", "path": "/verif/lib/vrun.py", "serves_properties": sorted(R.CLAIMED),
         "kind_free_text": "CrossHair (symbolic execution of the real Python functions, z3 back end), one OS process per condition, reachability twins, replay of counterexamples on the plain interpreter"},
        {"name": "rx", "path": "/verif/lib/rx.py", "serves_properties": [p for p in sorted(R.CLAIMED) if R.CLAIMED[p].get("rx")],
         "kind_free_text": "translation of the repo's compiled regular expressions (re._parser tree) into z3 regular-language terms; inclusion/equality/emptiness queries over all ASCII strings"},
    ],
    "checks": checks,
    "not_applicable": na,
    "notes": "Technique family: solver-based checking of the real code. Exit codes: 0 held / 1 VIOLATION (replayed) ; harness faults are printed as HARNESS-ERROR and inconclusive obligations as INCONCLUSIVE, never counted as success in the evidence.",
}
json.dump(m, open(os.path.join(VERIF, "MANIFEST.json"), "w"), indent=1)
print("claimed", len(checks), "not_applicable", len(na))
