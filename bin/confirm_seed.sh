#!/bin/bash
# usage: confirm_seed.sh <incoming dir with patch.diff demo.py notes.md> <seed-id> <property-id>
# Confirms in a scratch worktree (outside /repo and /verif) that the change applies, the existing suite passes
# with it, the demonstration fails with it and passes without it; then stores it under /verif/seeded/<seed-id>/.
set -u
IN="$1"; SID="$2"; PID="$3"
WT=/tmp/wtc_$SID; export TMPDIR=/tmp/tmp_$SID; mkdir -p $TMPDIR
git -C /repo worktree add --detach $WT HEAD >/dev/null 2>&1 || { echo "worktree failed"; exit 9; }
cd $WT
run_demo() { (cd $WT && PYTHONPATH=$WT timeout 600 /venv/bin/python "$IN/demo.py" >/tmp/demo_$SID.out 2>&1; echo $?); }
base=$(run_demo)
git apply "$IN/patch.diff" || { echo "PATCH DOES NOT APPLY"; git -C /repo worktree remove --force $WT; exit 2; }
suite=$(PYTHONPATH=$WT timeout 1200 /venv/bin/python -m pytest -q -p no:cacheprovider -n 8 --deselect test/test_interface.py::test_version_update_pypi 2>&1 | tail -1)
mut=$(run_demo)
git checkout -- . ; cd /verif
git -C /repo worktree remove --force $WT; rm -rf $TMPDIR
echo "seed=$SID base_demo_rc=$base suite='$suite' mutated_demo_rc=$mut"
ok=0; [[ "$base" == "0" && "$mut" != "0" && "$suite" == *" passed"* && "$suite" != *failed* ]] && ok=1
if [ $ok == 1 ]; then
  mkdir -p /verif/seeded/$SID && cp "$IN/patch.diff" "$IN/demo.py" /verif/seeded/$SID/ && cp "$IN/notes.md" /verif/seeded/$SID/notes.md 2>/dev/null
  python3 - "$SID" "$PID" "$base" "$mut" "$suite" <<'PY'
import json,sys,subprocess
sid,pid,base,mut,suite=sys.argv[1:6]
notes=open(f"/verif/seeded/{sid}/notes.md").read() if __import__("os").path.exists(f"/verif/seeded/{sid}/notes.md") else ""
head=subprocess.run(["git","-C","/repo","rev-parse","--short","HEAD"],capture_output=True,text=True).stdout.strip()
json.dump({"seed":sid,"property":pid,"origin":"independent sub-agent given only the property text and a scratch worktree",
 "needs_to_manifest":notes,"confirmed":{"repo_head":head,"existing_suite_with_patch":suite,"demo_rc_unpatched":int(base),"demo_rc_patched":int(mut),
 "how":"bin/confirm_seed.sh: scratch worktree under /tmp, git apply, pytest -n 8 (test_version_update_pypi deselected: needs network), demo.py with and without the patch"},
 "detected_by":None}, open(f"/verif/seeded/{sid}/meta.json","w"), indent=1)
PY
  echo CONFIRMED
else echo "NOT CONFIRMED (see /tmp/demo_$SID.out)"; fi
