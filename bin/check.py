#!/usr/bin/env python3
"""Entry point:  python3 /verif/bin/check.py <property-id> --tier quick|thorough

Runs with any python3 (>=3.8); all analysis runs in the overlay interpreter
/verif/.venv (built on demand from the offline wheelhouse, see lib/env.py)
against the CURRENT working tree of /repo.
Exit 0: every explored obligation held (inconclusive ones are listed).
Exit 1: a replayed counterexample -> line `VIOLATION property=<id> replay=<path>`.
"""
import argparse
import importlib
import os
import sys

VERIF = os.path.dirname(os.path.dirname(os.path.abspath(__file__)))
sys.path.insert(0, VERIF)


def main():
    ap = argparse.ArgumentParser()
    ap.add_argument("pid")
    ap.add_argument("--tier", default=os.environ.get("VERIF_TIER", "quick"), choices=["quick", "thorough"])
    ap.add_argument("--only", default=None, help="regex: run only obligations whose name matches")
    a = ap.parse_args()
    from lib import vrun

    mod = importlib.import_module(f"checks.{a.pid}")
    spec = mod.spec(a.tier)
    if a.only:
        import re

        spec["obligations"] = [o for o in spec["obligations"] if re.search(a.only, o.name)]
    return vrun.run_check(a.pid, a.tier, spec)


if __name__ == "__main__":
    sys.exit(main())
