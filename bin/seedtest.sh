#!/bin/bash
# usage: seedtest.sh <patch-file | rev:<commit>> <property-id> [extra check.py args]
# applies the change to /repo's working tree, runs the quick check, restores the tree.
set -u
P="$1"; PID="$2"; shift 2
cd /repo || exit 9
if [ -n "$(git status --porcelain --untracked-files=no)" ]; then echo "repo dirty"; exit 9; fi
if [[ "$P" == rev:* ]]; then git show "${P#rev:}" | git apply -R || exit 9; else git apply "$P" || exit 9; fi
cd /verif && python3 bin/check.py "$PID" "$@"; rc=$?
git -C /repo checkout -- . ; echo "seedtest rc=$rc"
exit $rc
