#!/bin/bash
# usage: seedtest.sh <patch-file | rev:<commit>> <property-id> [extra check.py args]
# applies the change to the working tree of $VERIF_REPO (default /repo), runs the check against it, restores the tree.
# With VERIF_REPO pointing at a scratch worktree (outside /repo and /verif) the checks import fortls from there
# (PYTHONPATH precedes the overlay's /repo entry), so /repo itself stays untouched.
set -u
P="$1"; PID="$2"; shift 2
R="${VERIF_REPO:-/repo}"
cd "$R" || exit 9
if [ -n "$(git status --porcelain --untracked-files=no)" ]; then echo "repo dirty"; exit 9; fi
if [[ "$P" == rev:* ]]; then git show "${P#rev:}" | git apply -R || exit 9; else git apply "$P" || exit 9; fi
if [ "$R" != /repo ]; then export VERIF_REPO="$R" PYTHONPATH="$R"; fi
cd /verif && python3 bin/check.py "$PID" "$@"; rc=$?
git -C "$R" checkout -- . ; echo "seedtest rc=$rc"
exit $rc
