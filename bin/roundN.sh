#!/bin/bash
# usage: roundN.sh <round> <property ids...>
# confirms and evaluates the seeds that the round-<N> sub-agents left in /tmp/s<N>_<pid>/{a,b}; stores them as
# seeded/<pid>r<N>{a,b} with the FIRST-RUN result of the quick check (first_run: true) - later re-evaluations by
# bin/seed_matrix.sh keep that result under detected_by.first_run_result.
cd /verif
N="$1"; shift
for pid in "$@"; do
  for s in a b; do
    d=/tmp/s${N}_$pid/$s; sid=${pid}r${N}$s
    [ -f $d/patch.diff ] || continue
    [ -d seeded/$sid ] && continue
    bin/confirm_seed.sh $d $sid $pid | tail -2
    [ -d seeded/$sid ] || continue
    out=$(bin/seedtest.sh /verif/seeded/$sid/patch.diff $pid --tier quick 2>&1)
    rc=$(echo "$out" | grep -o "seedtest rc=[0-9]*" | tail -1 | cut -d= -f2)
    obs=$(echo "$out" | grep -A1 "^VIOLATION" | grep "obligation=" | sed 's/.*obligation=\([^ ]*\).*/\1/' | sort -u | head -6 | tr '\n' ' ')
    python3 - "$sid" "$rc" "$obs" "$N" <<'PY'
import json,sys
sid,rc,obs,n=sys.argv[1:5]
p=f"/verif/seeded/{sid}/meta.json"; m=json.load(open(p))
m["round"]=int(n)
m["detected_by"]={"check": sid[:3]+" quick", "exit_code": int(rc) if rc else None, "violating_obligations": obs.split(), "detected": rc=="1", "first_run": True}
json.dump(m,open(p,"w"),indent=1)
print(f"ROUND{n}", sid, "detected" if rc=="1" else "MISSED rc="+str(rc), obs)
PY
  done
done
